package valid

// Witness search for C10: concurrent operation streams on one cache; run with -race.
// A data race report, a panic, or Len() == -1 / > capacity at quiescence confirms a violation.

import (
	"fmt"
	"math/rand"
	"sync"
	"testing"
	"time"
)

func TestVerifReplayC10(t *testing.T) {
	deadline := time.Now().Add(4 * time.Second)
	for round := 0; time.Now().Before(deadline); round++ {
		cap := round % 4
		l := NewLRU(cap)
		var wg sync.WaitGroup
		start := make(chan struct{})
		for g := 0; g < 8; g++ {
			wg.Add(1)
			go func(g int) {
				defer wg.Done()
				defer func() {
					if r := recover(); r != nil {
						fmt.Printf("REPLAY-CONFIRMED panic under concurrent use (cap=%d): %v\n", cap, r)
					}
				}()
				rng := rand.New(rand.NewSource(int64(round*100 + g)))
				<-start
				for i := 0; i < 300; i++ {
					k := rng.Intn(3)
					switch rng.Intn(5) {
					case 0, 1:
						l.Store(k, i)
					case 2:
						l.Load(k)
					case 3:
						l.Delete(k)
					case 4:
						if rng.Intn(8) == 0 {
							_ = l.Dump()
						} else {
							_ = l.Len()
						}
					}
				}
			}(g)
		}
		close(start)
		wg.Wait()
		if n := l.Len(); n < 0 || n > cap {
			fmt.Printf("REPLAY-CONFIRMED at quiescence Len() = %d on capacity %d after concurrent operation streams (round %d)\n", n, cap, round)
			return
		}
	}
}
