package valid

// Witness search for C10: concurrent operation streams on one cache; run with -race.
// A data race report, a panic, or Len() == -1 / > capacity at quiescence confirms a violation.

import (
	"fmt"
	"math/rand"
	"os"
	"sync"
	"testing"
	"time"
)

func TestVerifReplayC10(t *testing.T) {
	deadline := time.Now().Add(4 * time.Second)
	for round := 0; time.Now().Before(deadline); round++ {
		cap := round % 4
		l := NewLRU(cap)
		var wg sync.WaitGroup
		start := make(chan struct{})
		for g := 0; g < 8; g++ {
			wg.Add(1)
			go func(g int) {
				defer wg.Done()
				defer func() {
					if r := recover(); r != nil {
						fmt.Printf("REPLAY-CONFIRMED panic under concurrent use (cap=%d): %v\n", cap, r)
					}
				}()
				rng := rand.New(rand.NewSource(int64(round*100 + g)))
				<-start
				for i := 0; i < 300; i++ {
					k := rng.Intn(3)
					switch rng.Intn(5) {
					case 0, 1:
						l.Store(k, i)
					case 2:
						l.Load(k)
					case 3:
						l.Delete(k)
					case 4:
						if rng.Intn(8) == 0 {
							_ = l.Dump()
						} else {
							_ = l.Len()
						}
					}
				}
			}(g)
		}
		close(start)
		wg.Wait()
		if n := l.Len(); n < 0 || n > cap {
			fmt.Printf("REPLAY-CONFIRMED at quiescence Len() = %d on capacity %d after concurrent operation streams (round %d)\n", n, cap, round)
			return
		}
	}
}

// TestVerifBoundedC10: the concurrent stress as a standing bounded stand-in (go test -race).
func TestVerifBoundedC10(t *testing.T) {
	if os.Getenv("VERIF_BOUNDED") == "" {
		t.Skip("bounded stand-in: run by govc")
	}
	dur := 3 * time.Second
	if os.Getenv("VERIF_TIER") == "thorough" {
		dur = 20 * time.Second
	}
	deadline := time.Now().Add(dur)
	viol := 0
	rounds := 0
	var mu sync.Mutex
	for round := 0; time.Now().Before(deadline) && viol == 0; round++ {
		rounds++
		cap := round % 5
		l := NewLRU(cap)
		var wg sync.WaitGroup
		start := make(chan struct{})
		for g := 0; g < 8; g++ {
			wg.Add(1)
			go func(g int) {
				defer wg.Done()
				defer func() {
					if r := recover(); r != nil {
						mu.Lock()
						viol++
						mu.Unlock()
						fmt.Printf("BOUNDED-VIOLATION name=C10.streams panic under concurrent use (cap=%d): %v\n", cap, r)
					}
				}()
				rng := rand.New(rand.NewSource(int64(round*100 + g)))
				<-start
				for i := 0; i < 300; i++ {
					k := rng.Intn(3 + cap)
					switch rng.Intn(5) {
					case 0, 1:
						l.Store(k, i)
					case 2:
						if v, ok := l.Load(k); ok && v == nil {
							fmt.Printf("BOUNDED-VIOLATION name=C10.streams Load(%d) hit with a nil value\n", k)
						}
					case 3:
						l.Delete(k)
					case 4:
						if rng.Intn(8) == 0 {
							_ = l.Dump()
						} else if n := l.Len(); n < 0 || n > cap {
							mu.Lock()
							viol++
							mu.Unlock()
							fmt.Printf("BOUNDED-VIOLATION name=C10.streams Len() = %d on capacity %d during concurrent operation streams\n", n, cap)
						}
					}
				}
			}(g)
		}
		close(start)
		done := make(chan struct{})
		go func() { wg.Wait(); close(done) }()
		select {
		case <-done:
		case <-time.After(20 * time.Second):
			fmt.Printf("BOUNDED-VIOLATION name=C10.streams the operation streams did not finish within 20s (deadlock) on capacity %d\n", cap)
			t.Fatalf("deadlock")
		}
		if n := l.Len(); n < 0 || n > cap {
			viol++
			fmt.Printf("BOUNDED-VIOLATION name=C10.streams at quiescence Len() = %d on capacity %d (round %d)\n", n, cap, round)
		}
	}
	fmt.Printf("BOUNDED name=C10.streams cases=%d bound=%d rounds of 8 goroutines x 300 random Store/Load/Delete/Len/Dump on one cache (capacities 0..4, key sets larger than the capacity) under the race detector; no panic, no deadlock, Len within [0, capacity] during and after\n", rounds*8*300, rounds)
	if viol > 0 {
		t.Fatalf("%d violations", viol)
	}
}
