package valid

// Witness search for C09: bounded-exhaustive operation sequences against a reference LRU model.
// Used only to turn a failed obligation into a concrete history (the proof itself is unbounded).

import (
	"fmt"
	"os"
	"strconv"
	"strings"
	"testing"
)

type c09Ref struct {
	cap   int
	order []string // most recent first
	vals  map[string]int
}

func (r *c09Ref) touch(k string) {
	for i, x := range r.order {
		if x == k {
			r.order = append(r.order[:i], r.order[i+1:]...)
			break
		}
	}
	r.order = append([]string{k}, r.order...)
}

type c09Ev struct {
	k string
	v int
}

func c09Run(cap int, ops []string) (string, bool) {
	var evs, want []c09Ev
	l := NewLRU(cap)
	l.SetDelCallBackFn(func(k, v interface{}) { evs = append(evs, c09Ev{k.(string), v.(int)}) })
	ref := &c09Ref{cap: cap, vals: map[string]int{}}
	for i, op := range ops {
		f := strings.Split(op, ":")
		switch f[0] {
		case "S":
			v, _ := strconv.Atoi(f[2])
			l.Store(f[1], v)
			if _, ok := ref.vals[f[1]]; ok {
				ref.vals[f[1]] = v
				ref.touch(f[1])
			} else {
				ref.vals[f[1]] = v
				ref.touch(f[1])
				if len(ref.order) > ref.cap {
					last := ref.order[len(ref.order)-1]
					ref.order = ref.order[:len(ref.order)-1]
					want = append(want, c09Ev{last, ref.vals[last]})
					delete(ref.vals, last)
				}
			}
		case "L":
			d, ok := l.Load(f[1])
			wv, wok := ref.vals[f[1]]
			if wok {
				ref.touch(f[1])
			}
			if ok != wok || (ok && d.(int) != wv) {
				return fmt.Sprintf("cap=%d ops=%v: step %d Load(%s) = (%v,%v), reference (%v,%v)", cap, ops, i, f[1], d, ok, wv, wok), true
			}
		case "D":
			l.Delete(f[1])
			if v, ok := ref.vals[f[1]]; ok {
				want = append(want, c09Ev{f[1], v})
				delete(ref.vals, f[1])
				for j, x := range ref.order {
					if x == f[1] {
						ref.order = append(ref.order[:j], ref.order[j+1:]...)
						break
					}
				}
			}
		}
		if n := l.Len(); n != len(ref.order) || n > cap {
			return fmt.Sprintf("cap=%d ops=%v: step %d Len() = %d, reference %d", cap, ops, i, n, len(ref.order)), true
		}
		if fmt.Sprint(evs) != fmt.Sprint(want) {
			return fmt.Sprintf("cap=%d ops=%v: step %d callbacks %v, reference %v", cap, ops, i, evs, want), true
		}
	}
	return "", false
}

func TestVerifReplayC09(t *testing.T) {
	maxLen := 5
	if s := os.Getenv("VERIF_SEARCH"); s != "" {
		if p := strings.Split(s, ":"); len(p) == 2 {
			if n, err := strconv.Atoi(p[1]); err == nil && n > 0 && n < 8 {
				maxLen = n
			}
		}
	}
	var alphabet []string
	for _, k := range []string{"a", "b", "c"} {
		alphabet = append(alphabet, "S:"+k+":1", "S:"+k+":2", "L:"+k, "D:"+k)
	}
	found := 0
	var rec func(cap int, ops []string)
	rec = func(cap int, ops []string) {
		if found > 0 {
			return
		}
		if len(ops) > 0 {
			if msg, bad := c09Run(cap, ops); bad {
				fmt.Println("REPLAY-CONFIRMED " + msg)
				found++
				return
			}
		}
		if len(ops) == maxLen {
			return
		}
		for _, a := range alphabet {
			rec(cap, append(append([]string{}, ops...), a))
		}
	}
	for cap := 0; cap <= 2 && found == 0; cap++ {
		rec(cap, nil)
	}
}

// TestVerifBoundedC09: the same search as a standing bounded stand-in (run on every check; it is what decides when the
// contract of an LRU function no longer matches the code's shape). Every operation sequence up to the bound is compared
// step by step with a reference LRU.
func TestVerifBoundedC09(t *testing.T) {
	if os.Getenv("VERIF_BOUNDED") == "" {
		t.Skip("bounded stand-in: run by govc")
	}
	maxLen := 5
	if os.Getenv("VERIF_TIER") == "thorough" {
		maxLen = 6
	}
	var alphabet []string
	for _, k := range []string{"a", "b", "c"} {
		alphabet = append(alphabet, "S:"+k+":1", "S:"+k+":2", "L:"+k, "D:"+k)
	}
	n, viol := 0, 0
	var rec func(cap int, ops []string)
	rec = func(cap int, ops []string) {
		if viol >= 3 {
			return
		}
		if len(ops) > 0 {
			n++
			if msg, bad := c09Run(cap, ops); bad {
				viol++
				fmt.Println("BOUNDED-VIOLATION name=C09.sequences " + msg)
				return
			}
		}
		if len(ops) == maxLen {
			return
		}
		for _, a := range alphabet {
			rec(cap, append(append([]string{}, ops...), a))
		}
	}
	for cap := 0; cap <= 3; cap++ {
		rec(cap, nil)
	}
	fmt.Printf("BOUNDED name=C09.sequences cases=%d bound=every sequence of <= %d operations (Store of 2 values / Load / Delete on 3 keys) on capacities 0..3, each step compared with a reference LRU: results, Len, capacity bound, eviction victim and callback log\n", n, maxLen)
	if viol > 0 {
		t.Fatalf("%d violations", viol)
	}
}
