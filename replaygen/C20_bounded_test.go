package valid

// Bounded stand-in for C20 (the struct dumper emits well-formed JSON that decodes to the same document as the standard
// encoding, up to the documented deviations). Run through go test -overlay against the real package; DESIGN.md §4.3.

import (
	"bytes"
	"encoding/json"
	"fmt"
	"math"
	"math/rand"
	"os"
	"reflect"
	"strconv"
	"testing"
)

// c20Expect builds the document the property prescribes for v: field names as keys, exported fields only, bools as the
// strings "true"/"false", nil slices as [], nil maps as {}, nil pointers as null, numbers by their canonical rendering.
func c20Expect(v reflect.Value) interface{} {
	switch v.Kind() {
	case reflect.Ptr:
		if v.IsNil() {
			return nil
		}
		return c20Expect(v.Elem())
	case reflect.Struct:
		m := map[string]interface{}{}
		for i := 0; i < v.NumField(); i++ {
			f := v.Type().Field(i)
			if f.PkgPath != "" {
				continue
			}
			m[f.Name] = c20Expect(v.Field(i))
		}
		return m
	case reflect.Slice, reflect.Array:
		out := []interface{}{}
		for i := 0; i < v.Len(); i++ {
			out = append(out, c20Expect(v.Index(i)))
		}
		return out
	case reflect.Map:
		m := map[string]interface{}{}
		it := v.MapRange()
		for it.Next() {
			m[fmt.Sprint(it.Key().Interface())] = c20Expect(it.Value())
		}
		return m
	case reflect.String:
		return v.String()
	case reflect.Bool:
		if v.Bool() {
			return "true"
		}
		return "false"
	case reflect.Int, reflect.Int8, reflect.Int16, reflect.Int32, reflect.Int64:
		return json.Number(strconv.FormatInt(v.Int(), 10))
	case reflect.Uint, reflect.Uint8, reflect.Uint16, reflect.Uint32, reflect.Uint64:
		return json.Number(strconv.FormatUint(v.Uint(), 10))
	case reflect.Float32:
		return json.Number(strconv.FormatFloat(v.Float(), 'f', -1, 32))
	case reflect.Float64:
		return json.Number(strconv.FormatFloat(v.Float(), 'f', -1, 64))
	}
	return "unknown"
}

func c20Equal(a, b interface{}) bool {
	switch x := a.(type) {
	case map[string]interface{}:
		y, ok := b.(map[string]interface{})
		if !ok || len(x) != len(y) {
			return false
		}
		for k, v := range x {
			w, ok := y[k]
			if !ok || !c20Equal(v, w) {
				return false
			}
		}
		return true
	case []interface{}:
		y, ok := b.([]interface{})
		if !ok || len(x) != len(y) {
			return false
		}
		for i := range x {
			if !c20Equal(x[i], y[i]) {
				return false
			}
		}
		return true
	case json.Number:
		y, ok := b.(json.Number)
		if !ok {
			return false
		}
		if string(x) == string(y) {
			return true
		}
		fx, e1 := strconv.ParseFloat(string(x), 64)
		fy, e2 := strconv.ParseFloat(string(y), 64)
		return e1 == nil && e2 == nil && fx == fy && (math.Abs(fx) < 1<<53)
	}
	return reflect.DeepEqual(a, b)
}

type c20Gen struct {
	r *rand.Rand
	n int
}

var c20Scalars = []reflect.Type{reflect.TypeOf(""), reflect.TypeOf(true), reflect.TypeOf(0), reflect.TypeOf(int8(0)), reflect.TypeOf(int64(0)), reflect.TypeOf(uint(0)),
	reflect.TypeOf(uint8(0)), reflect.TypeOf(uint64(0)), reflect.TypeOf(float32(0)), reflect.TypeOf(0.0)}

func (g *c20Gen) typ(depth int) reflect.Type {
	if depth <= 0 || g.r.Intn(3) == 0 {
		return c20Scalars[g.r.Intn(len(c20Scalars))]
	}
	switch g.r.Intn(7) {
	case 0, 1:
		return g.structType(depth - 1)
	case 2:
		return reflect.PtrTo(g.structType(depth - 1))
	case 3:
		return reflect.SliceOf(g.typ(depth - 1))
	case 4:
		return reflect.ArrayOf(2, g.typ(depth-1))
	case 5:
		return reflect.MapOf(reflect.TypeOf(""), g.typ(depth-1))
	}
	return reflect.MapOf([]reflect.Type{reflect.TypeOf(0), reflect.TypeOf(uint8(0)), reflect.TypeOf(uint64(0)), reflect.TypeOf(int8(0)), reflect.TypeOf(int64(0))}[g.r.Intn(5)], g.typ(depth-1))
}

func (g *c20Gen) structType(depth int) reflect.Type {
	nf := g.r.Intn(4) // 0 fields included
	var fs []reflect.StructField
	names := []string{"Alpha", "Zeta", "Beta", "Yy", "Mid"}
	for i := 0; i < nf; i++ {
		g.n++
		f := reflect.StructField{Name: fmt.Sprintf("%s%d", names[g.r.Intn(len(names))], g.n), Type: g.typ(depth)}
		if g.r.Intn(4) == 0 { // unexported field (first, middle or all)
			f.Name = fmt.Sprintf("u%d", g.n)
			f.PkgPath = "gitee.com/xuesongtao/protoc-go-valid/valid"
			f.Type = c20Scalars[g.r.Intn(len(c20Scalars))]
		}
		fs = append(fs, f)
	}
	return reflect.StructOf(fs)
}

var c20Strings = []string{"", "a", "hello world", "中文", "x:y,z", "{[]}"}
var c20Ints = []int64{0, 1, -1, 127, -128, 1 << 40, math.MaxInt64, math.MinInt64}
var c20Uints = []uint64{0, 1, 255, 1 << 63, math.MaxUint64}
var c20Floats = []float64{0, 1, -2.5, 0.1, 0.3, 1e6, 123456.789, 1e-3}

func (g *c20Gen) fill(v reflect.Value) {
	switch v.Kind() {
	case reflect.String:
		v.SetString(c20Strings[g.r.Intn(len(c20Strings))])
	case reflect.Bool:
		v.SetBool(g.r.Intn(2) == 0)
	case reflect.Int, reflect.Int8, reflect.Int16, reflect.Int32, reflect.Int64:
		x := c20Ints[g.r.Intn(len(c20Ints))]
		if v.OverflowInt(x) {
			x = x % 100
		}
		v.SetInt(x)
	case reflect.Uint, reflect.Uint8, reflect.Uint16, reflect.Uint32, reflect.Uint64:
		x := c20Uints[g.r.Intn(len(c20Uints))]
		if v.OverflowUint(x) {
			x = x % 200
		}
		v.SetUint(x)
	case reflect.Float32:
		v.SetFloat(float64(float32(c20Floats[g.r.Intn(len(c20Floats))])))
	case reflect.Float64:
		v.SetFloat(c20Floats[g.r.Intn(len(c20Floats))])
	case reflect.Struct:
		for i := 0; i < v.NumField(); i++ {
			if v.Type().Field(i).PkgPath == "" {
				g.fill(v.Field(i))
			}
		}
	case reflect.Ptr:
		if g.r.Intn(3) != 0 {
			p := reflect.New(v.Type().Elem())
			g.fill(p.Elem())
			v.Set(p)
		}
	case reflect.Slice:
		switch g.r.Intn(3) {
		case 0: // nil
		case 1:
			v.Set(reflect.MakeSlice(v.Type(), 0, 0))
		default:
			n := 1 + g.r.Intn(3)
			s := reflect.MakeSlice(v.Type(), n, n)
			for i := 0; i < n; i++ {
				g.fill(s.Index(i))
			}
			v.Set(s)
		}
	case reflect.Array:
		for i := 0; i < v.Len(); i++ {
			g.fill(v.Index(i))
		}
	case reflect.Map:
		switch g.r.Intn(3) {
		case 0:
		case 1:
			v.Set(reflect.MakeMap(v.Type()))
		default:
			m := reflect.MakeMap(v.Type())
			n := 1 + g.r.Intn(3)
			for i := 0; i < n; i++ {
				k := reflect.New(v.Type().Key()).Elem()
				switch k.Kind() {
				case reflect.String:
					k.SetString(fmt.Sprintf("k%d", i))
				case reflect.Uint8, reflect.Uint64:
					k.SetUint(uint64(i*7 + 1))
				default:
					k.SetInt(int64(i*7 - 3))
				}
				e := reflect.New(v.Type().Elem()).Elem()
				g.fill(e)
				m.SetMapIndex(k, e)
			}
			v.Set(m)
		}
	}
}

func TestVerifBoundedC20(t *testing.T) {
	if os.Getenv("VERIF_BOUNDED") == "" {
		t.Skip("bounded stand-in: run by govc")
	}
	seed, _ := strconv.Atoi(os.Getenv("VERIF_SEED"))
	n := 4000
	depth := 2
	if os.Getenv("VERIF_TIER") == "thorough" {
		n, depth = 40000, 3
	}
	g := &c20Gen{r: rand.New(rand.NewSource(int64(seed) + 20))}
	viol := 0
	check := func(v reflect.Value) {
		out := GetDumpStructStr(v.Interface())
		dec := json.NewDecoder(bytes.NewReader([]byte(out)))
		dec.UseNumber()
		var got interface{}
		err := dec.Decode(&got)
		if err == nil && dec.More() {
			err = fmt.Errorf("trailing data")
		}
		want := c20Expect(v)
		if err != nil || !c20Equal(got, want) {
			viol++
			if viol <= 5 {
				std, _ := json.Marshal(v.Interface())
				fmt.Printf("BOUNDED-VIOLATION name=C20.dump value of type %s: dump %q (decode error: %v) does not decode to the prescribed document %v (standard encoding: %s)\n", v.Type(), out, err, want, std)
			}
		}
	}
	cases := 0
	// directed: every scalar extreme as a struct field, empty struct, all-unexported struct, nested empties
	for _, st := range c20Scalars {
		for i := 0; i < 12; i++ {
			cases++
			ty := reflect.StructOf([]reflect.StructField{{Name: "Zfield", Type: st}, {Name: "Other", Type: reflect.PtrTo(reflect.StructOf(nil))}})
			v := reflect.New(ty).Elem()
			g.fill(v)
			check(v)
		}
	}
	for i := 0; i < n; i++ {
		cases++
		ty := g.structType(depth)
		v := reflect.New(ty).Elem()
		g.fill(v)
		if i%3 == 0 {
			check(v.Addr())
		} else {
			check(v)
		}
	}
	fmt.Printf("BOUNDED name=C20.dump cases=%d bound=%d seeded random values of run-time synthesised struct types (depth %d: structs incl. empty and partly/all unexported, pointers, slices, arrays, string-, int- and uint-keyed maps; scalars at their extremes incl. MaxUint64, MinInt64, float32 0.1) + 120 directed single-field structs: the dump decodes (json, UseNumber) to the prescribed document\n", cases, n, depth)
	if viol > 0 {
		t.Fatalf("%d violations", viol)
	}
}
