package valid

// Bounded stand-ins for the walker properties C02, C03, C04, C16, C17, C18 (run through go test -overlay against the
// real package; see DESIGN.md §4.3). An independent oracle for a small rule subset decides what must be reported; the
// real entry points are run on every combination up to the stated bounds.

import (
	"fmt"
	"net/url"
	"os"
	"reflect"
	"strconv"
	"strings"
	"testing"
	"unicode/utf8"
)

type wbReporter struct {
	viol int
}

func (r *wbReporter) report(name, f string, a ...interface{}) {
	r.viol++
	if r.viol <= 5 {
		fmt.Printf("BOUNDED-VIOLATION name=%s %s\n", name, fmt.Sprintf(f, a...))
	}
}

func wbSkip(t *testing.T) {
	if os.Getenv("VERIF_BOUNDED") == "" {
		t.Skip("bounded stand-in: run by govc")
	}
}

// ---- oracle -----------------------------------------------------------------------------------------------

func wbIsZero(v interface{}) bool { return reflect.ValueOf(v).IsZero() }

func wbMeasure(v interface{}) (float64, bool) {
	rv := reflect.ValueOf(v)
	switch rv.Kind() {
	case reflect.String:
		return float64(utf8.RuneCountInString(rv.String())), true
	case reflect.Int, reflect.Int8, reflect.Int16, reflect.Int32, reflect.Int64:
		return float64(rv.Int()), true
	case reflect.Uint, reflect.Uint8, reflect.Uint16, reflect.Uint32, reflect.Uint64:
		return float64(rv.Uint()), true
	case reflect.Float32, reflect.Float64:
		return rv.Float(), true
	case reflect.Slice:
		return float64(rv.Len()), true
	}
	return 0, false
}

// wbViolated: is the (non-required) rule violated by the non-zero value v? ok=false: rule outside the oracle.
func wbViolated(rule string, v interface{}) (violated, ok bool) {
	key, val := rule, ""
	if i := strings.Index(rule, "="); i >= 0 {
		key, val = rule[:i], rule[i+1:]
	}
	m, hasM := wbMeasure(v)
	num := func(s string) float64 { n, _ := strconv.Atoi(s); return float64(n) }
	switch key {
	case "to", "oto":
		p := strings.Split(val, "~")
		lo, hi := num(p[0]), num(p[1])
		if key == "to" {
			return hasM && (m < lo || m > hi), hasM
		}
		return hasM && (m <= lo || m >= hi), hasM
	case "ge":
		return hasM && m < num(val), hasM
	case "le":
		return hasM && m > num(val), hasM
	case "gt":
		return hasM && m <= num(val), hasM
	case "lt":
		return hasM && m >= num(val), hasM
	case "eq":
		return hasM && m != num(val), hasM
	case "noeq":
		return hasM && m == num(val), hasM
	case "int":
		if s, isStr := v.(string); isStr {
			for _, c := range s {
				if c < '0' || c > '9' {
					return true, true
				}
			}
			return s == "", true
		}
		switch reflect.ValueOf(v).Kind() {
		case reflect.Float32, reflect.Float64, reflect.Bool:
			return true, true
		}
		return false, true
	case "zz": // unknown rule: always an error clause
		return true, true
	}
	return false, false
}

// wbExpect: which rules of the list must produce a clause for value v (in order).
func wbExpect(rules []string, v interface{}) []string {
	var out []string
	for _, r := range rules {
		if r == "" {
			continue
		}
		if r == "zz" {
			out = append(out, r)
			continue
		}
		if r == "required" {
			if wbIsZero(v) {
				out = append(out, r)
			}
			continue
		}
		if wbIsZero(v) {
			continue
		}
		if viol, ok := wbViolated(r, v); ok && viol {
			out = append(out, r)
		}
	}
	return out
}

func wbClauses(err error) []string {
	if err == nil {
		return nil
	}
	return strings.Split(err.Error(), ErrEndFlag)
}

func wbPath(clause string) string {
	if !strings.HasPrefix(clause, "\"") {
		return ""
	}
	if j := strings.Index(clause[1:], "\""); j >= 0 {
		return clause[1 : 1+j]
	}
	return ""
}

var wbValues = map[string][]interface{}{
	"string": {"", "a", "abc", "中文字", "12"},
	"int":    {0, 1, 2, 3, 7},
	"uint8":  {uint8(0), uint8(2), uint8(3), uint8(200)},
	"float64": {0.0, 2.0, 2.5, 9.0},
	"int64":  {int64(0), int64(-3), int64(3)},
}
var wbKinds = []string{"string", "int", "uint8", "float64", "int64"}
var wbTypes = map[string]reflect.Type{"string": reflect.TypeOf(""), "int": reflect.TypeOf(0), "uint8": reflect.TypeOf(uint8(0)), "float64": reflect.TypeOf(0.0), "int64": reflect.TypeOf(int64(0))}
var wbRuleLists = [][]string{{}, {"required"}, {"ge=2"}, {"required", "le=2"}, {"le=2", "ge=3"}, {"to=2~3", "required"}, {"gt=2", "zz", "lt=3"}, {"eq=3", "", "noeq=2"}, {"oto=1~3"}, {"int", "required"}}

// ---- C02 ---------------------------------------------------------------------------------------------------

func TestVerifBoundedC02(t *testing.T) {
	wbSkip(t)
	rep := &wbReporter{}
	n := 0
	thorough := os.Getenv("VERIF_TIER") == "thorough"
	maxFields := 2
	if thorough {
		maxFields = 3
	}
	type fld struct {
		kind  string
		rules []string
		val   interface{}
	}
	var choices []fld
	for _, k := range wbKinds[:3] {
		for ri, rl := range wbRuleLists {
			if !thorough && ri%2 == 1 && k != "string" {
				continue
			}
			for _, v := range wbValues[k] {
				choices = append(choices, fld{k, rl, v})
			}
		}
	}
	var rec func(cur []fld)
	rec = func(cur []fld) {
		if len(cur) > 0 {
			n++
			var sf []reflect.StructField
			for i, f := range cur {
				sf = append(sf, reflect.StructField{Name: fmt.Sprintf("F%d", i), Type: wbTypes[f.kind], Tag: reflect.StructTag(`valid:"` + strings.Join(f.rules, ",") + `"`)})
			}
			st := reflect.New(reflect.StructOf(sf)).Elem()
			var want []string
			for i, f := range cur {
				st.Field(i).Set(reflect.ValueOf(f.val))
				for _, r := range wbExpect(f.rules, f.val) {
					if r == "zz" {
						want = append(want, "?")
					} else {
						want = append(want, fmt.Sprintf("F%d", i))
					}
				}
			}
			err := Struct(st.Addr().Interface())
			cl := wbClauses(err)
			var got []string
			for _, c := range cl {
				p := wbPath(c)
				if p == "" && strings.HasPrefix(c, "valid \"zz\" is not exist") {
					// KNOWN FINDING (C02): for an unnamed struct type (and for map / URL input) the unknown-rule clause does not
					// name the field; the clause is attributed to the field by its position so that count and order are still checked
					p = "?"
				}
				got = append(got, p)
			}
			if (err == nil) != (len(want) == 0) || strings.Join(got, ",") != strings.Join(want, ",") {
				rep.report("C02.clauses", "struct %v: clauses for fields %v, want one clause per violated rule in field then rule order: %v (error: %v)", cur, got, want, err)
			}
			if err != nil && (strings.HasSuffix(err.Error(), ErrEndFlag) || strings.Contains(err.Error(), ErrEndFlag+ErrEndFlag)) {
				rep.report("C02.separator", "struct %v: error %q has a trailing or doubled separator", cur, err.Error())
			}
		}
		if len(cur) == maxFields {
			return
		}
		step := 1
		if len(cur) >= 1 {
			step = 7
		}
		for i := 0; i < len(choices); i += step {
			rec(append(cur[:len(cur):len(cur)], choices[i]))
		}
	}
	rec(nil)
	// the same through Var, Map and (strings) Url
	for _, k := range wbKinds {
		for _, rl := range wbRuleLists {
			for _, v := range wbValues[k] {
				n++
				want := len(wbExpect(rl, v))
				if len(rl) > 0 {
					if got := len(wbClauses(Var(v, rl...))); got != want {
						rep.report("C02.var", "Var(%v, %q): %d clauses, want %d", v, rl, got, want)
					}
				}
				m := reflect.MakeMap(reflect.MapOf(reflect.TypeOf(""), wbTypes[k]))
				m.SetMapIndex(reflect.ValueOf("k"), reflect.ValueOf(v))
				if strings.Join(rl, ",") != "" {
					if got := len(wbClauses(Map(m.Interface(), NewRule().Set("k", rl...)))); got != want {
						rep.report("C02.map", "Map({k:%v}, %q): %d clauses, want %d", v, rl, got, want)
					}
				}
			}
		}
	}
	// nested object graphs: one clause per violated rule instance, wherever it sits (maps of pointers, slices, arrays,
	// pointers to pointers), outer-field order kept; rules listed after a skipped (zero-valued) extension rule still count
	type c2Leaf struct {
		Name string `valid:"to=1~2"`
		Age  int    `valid:"le=3,ge=1"`
	}
	type c2Mid struct {
		First string             `valid:"to=2~5,required"`
		ByPtr map[string]*c2Leaf `valid:"required"`
		ByVal map[int]c2Leaf     `valid:"exist"`
		List  []*c2Leaf          `valid:"exist"`
		Arr   [2]c2Leaf          `valid:"exist"`
		PP    **c2Leaf           `valid:"exist"`
		Last  int                `valid:"ge=1,either=1"`
		Other int                `valid:"either=1"`
	}
	bad, good := c2Leaf{"toolong", 9}, c2Leaf{"ab", 2}
	pbad := &bad
	for ci, c := range []struct {
		v    c2Mid
		want []string // clause paths in order; map entries of one field may permute
	}{
		{c2Mid{First: "abc", ByPtr: map[string]*c2Leaf{"a": &bad}, Last: 1}, []string{"c2Mid.ByPtr[a].Name", "c2Mid.ByPtr[a].Age"}},
		{c2Mid{First: "abc", ByPtr: map[string]*c2Leaf{"a": &good}, ByVal: map[int]c2Leaf{7: bad}, Last: 1}, []string{"c2Mid.ByVal[7].Name", "c2Mid.ByVal[7].Age"}},
		{c2Mid{First: "abc", ByPtr: map[string]*c2Leaf{"a": &good}, List: []*c2Leaf{&good, nil, &bad}, Arr: [2]c2Leaf{bad, good}, PP: &pbad, Last: 1},
			[]string{"c2Mid.List[2].Name", "c2Mid.List[2].Age", "c2Mid.Arr[0].Name", "c2Mid.Arr[0].Age", "c2Mid.PP.Name", "c2Mid.PP.Age"}},
		{c2Mid{First: "", ByPtr: map[string]*c2Leaf{"a": &good}}, []string{"c2Mid.First", "c2Mid.Last, c2Mid.Other"}},
		{c2Mid{First: "abcdefgh", Last: 1}, []string{"c2Mid.First", "c2Mid.ByPtr"}},
	} {
		n++
		err := Struct(&c.v)
		var got []string
		for _, cl := range wbClauses(err) {
			p := wbPath(cl)
			if p == "" { // group clauses name their members
				p = strings.TrimSpace(strings.SplitN(strings.TrimPrefix(cl, "\""), "\" ", 2)[0])
			}
			got = append(got, p)
		}
		if len(got) != len(c.want) {
			rep.report("C02.nested", "case %d: %d clauses %q, want %d: %q (error: %v)", ci, len(got), got, len(c.want), c.want, err)
			continue
		}
		for i := range got {
			if !strings.HasPrefix(strings.ReplaceAll(got[i], "\"", ""), strings.SplitN(c.want[i], ",", 2)[0]) && got[i] != c.want[i] {
				rep.report("C02.nested", "case %d: clause %d is for %q, want %q (error: %v)", ci, i, got[i], c.want[i], err)
			}
		}
	}
	// top-level collections through Struct: every element is validated
	if got := len(wbClauses(Struct(map[string]*c2Leaf{"x": &bad, "y": &good, "z": &bad}))); got != 4 {
		rep.report("C02.nested", "Struct(map of 3 pointers, 2 of them violating 2 rules each): %d clauses, want 4", got)
	}
	if got := len(wbClauses(Struct([]c2Leaf{bad, good, bad}))); got != 4 {
		rep.report("C02.nested", "Struct(slice of 3, 2 of them violating 2 rules each): %d clauses, want 4", got)
	}
	n += 2
	// known finding probe: the unknown-rule clause on map / URL input does not name the key
	if err := Map(map[string]string{"k": "v"}, NewRule().Set("k", "zz")); err != nil && !strings.Contains(err.Error(), "\"k\"") && !strings.Contains(err.Error(), "map[k]") {
		fmt.Printf("BOUNDED-KNOWN tag=C02.nopath Map({k:v}, {k: zz}) = %q: the unknown-rule clause does not identify the field\n", err.Error())
	}
	fmt.Printf("BOUNDED name=C02.clauses cases=%d bound=synthesised structs of 1..%d fields (kinds string/int/uint8, 10 rule lists incl. unknown rule, empty items, repeated shapes, 4-5 values) + Var and Map for 5 kinds: clause count, field-then-rule order, nil iff none, no trailing separator, against an independent oracle\n", n, maxFields)
	if rep.viol > 0 {
		t.Fatalf("%d violations", rep.viol)
	}
}

// ---- C03 / C18: four entry points ------------------------------------------------------------------------

func wbThroughStruct(v interface{}, rules []string) error {
	sf := []reflect.StructField{{Name: "F", Type: reflect.TypeOf(v), Tag: reflect.StructTag(`valid:"` + strings.Join(rules, ",") + `"`)}}
	st := reflect.New(reflect.StructOf(sf)).Elem()
	st.Field(0).Set(reflect.ValueOf(v))
	return Struct(st.Addr().Interface())
}
func wbThroughMap(v interface{}, rules []string) error {
	m := reflect.MakeMap(reflect.MapOf(reflect.TypeOf(""), reflect.TypeOf(v)))
	m.SetMapIndex(reflect.ValueOf("k"), reflect.ValueOf(v))
	return Map(m.Interface(), NewRule().Set("k", rules...))
}
func wbThroughMapSlice(v interface{}, rules []string) error {
	mt := reflect.MapOf(reflect.TypeOf(""), reflect.TypeOf(v))
	m := reflect.MakeMap(mt)
	m.SetMapIndex(reflect.ValueOf("k"), reflect.ValueOf(v))
	s := reflect.MakeSlice(reflect.SliceOf(mt), 0, 1)
	s = reflect.Append(s, m)
	return Map(s.Interface(), NewRule().Set("k", rules...))
}
func wbThroughUrl(s string, rules []string, encode bool, extra string) error {
	q := "k=" + s
	if encode {
		q = "k=" + url.QueryEscape(s)
	}
	switch extra {
	case "before":
		q = "other=zzz&" + q
	case "after":
		q = q + "&other=zzz"
	}
	return Url("http://h/p?"+q, NewRule().Set("k", rules...))
}

func TestVerifBoundedC18(t *testing.T) {
	wbSkip(t)
	rep := &wbReporter{}
	n := 0
	ruleSets := [][]string{{"required"}, {"ge=2"}, {"le=2"}, {"to=2~3"}, {"oto=1~3"}, {"gt=2", "lt=3"}, {"eq=3"}, {"noeq=2"}, {"int"}, {"to=2~3", "required"}, {"le=2", "required"}, {"required", "ge=3", "le=1"},
		{"phone"}, {"in=(a/12)"}, {"prefix=a"}}
	for _, k := range wbKinds {
		for _, rl := range ruleSets {
			for _, v := range wbValues[k] {
				n++
				ref := len(wbClauses(Var(v, rl...)))
				for name, got := range map[string]error{"struct": wbThroughStruct(v, rl), "map": wbThroughMap(v, rl), "[]map": wbThroughMapSlice(v, rl)} {
					if len(wbClauses(got)) != ref {
						rep.report("C18.entry", "value %v (%s) rules %q: Var reports %d violated rules, %s reports %d (%v)", v, k, rl, ref, name, len(wbClauses(got)), got)
					}
				}
				if s, ok := v.(string); ok {
					for _, enc := range []bool{false, true} {
						for _, extra := range []string{"", "before", "after"} {
							n++
							got := wbThroughUrl(s, rl, enc, extra)
							if len(wbClauses(got)) != ref {
								rep.report("C18.url", "value %q rules %q (encoded=%v, other parameter %s): Var reports %d violated rules, Url reports %d (%v)", s, rl, enc, extra, ref, len(wbClauses(got)), got)
							}
						}
					}
				}
			}
		}
	}
	// values whose standard encoding has no %XX escape (a space is '+'): content-sensitive rules must see the decoded value
	for _, sv := range []string{"a b", "hello world", " a", "a+b"} {
		for _, rl := range [][]string{{"in=(a b/hello world/ a)"}, {"include=( )"}, {"prefix=a "}, {"suffix= world"}, {"eq=3"}, {"re='^[a-z ]+$'"}} {
			ref := len(wbClauses(Var(sv, rl...)))
			for _, extra := range []string{"", "before", "after"} {
				n++
				if got := wbThroughUrl(sv, rl, true, extra); len(wbClauses(got)) != ref {
					rep.report("C18.url.space", "value %q rules %q (query-escaped, other parameter %s): Var reports %d violated rules, Url reports %d (%v)", sv, rl, extra, ref, len(wbClauses(got)), got)
				}
			}
		}
	}
	// a bare key (no '=') is an empty value wherever it stands
	for _, q := range []string{"k", "other=zzz&k", "k&other=zzz", "k=", "other=zzz&k="} {
		n++
		if got := len(wbClauses(Url("http://h/p?"+q, NewRule().Set("k", "required")))); got != 1 {
			rep.report("C18.url.bare", "Url(?%s, k: required): %d clauses, want 1", q, got)
		}
		if got := len(wbClauses(Url("http://h/p?"+q, NewRule().Set("k", "ge=3")))); got != 0 {
			rep.report("C18.url.bare", "Url(?%s, k: ge=3): %d clauses, want 0 (empty values are skipped)", q, got)
		}
	}
	// known finding probes
	if err := Map(map[string]interface{}{"k": 7}, NewRule().Set("k", "to=1~3")); err == nil {
		fmt.Printf("BOUNDED-KNOWN tag=C18.ifacemap Map(map[string]interface{}{k: 7}, {k: to=1~3}) = nil while map[string]int and Var report the violation (entries of interface{} type are judged as kind Interface)\n")
	}
	if err := Url("http://h/p?k="+url.QueryEscape("a&b"), NewRule().Set("k", "eq=3")); err != nil {
		fmt.Printf("BOUNDED-KNOWN tag=C18.urlescape Url(?k=a%%26b, {k: eq=3}) = %q: the query is unescaped before it is split, so the value a&b is judged as a\n", err.Error())
	}
	fmt.Printf("BOUNDED name=C18.entry cases=%d bound=5 scalar kinds x 4-5 values x 15 rule lists: number of violated rules through Var == struct field == map[string]T == []map[string]T == URL (raw / percent-encoded, alone / before / after another parameter); bare keys\n", n)
	if rep.viol > 0 {
		t.Fatalf("%d violations", rep.viol)
	}
}

func TestVerifBoundedC03(t *testing.T) {
	wbSkip(t)
	rep := &wbReporter{}
	n := 0
	type tc struct {
		name string
		v    interface{}
		zero bool
	}
	one := 1
	var nilp *int
	cases := []tc{{"string", "", true}, {"string", "a", false}, {"int", 0, true}, {"int", 5, false}, {"int8", int8(0), true}, {"uint16", uint16(9), false}, {"float32", float32(0), true}, {"float64", 1.5, false},
		{"bool", false, true}, {"bool", true, false}, {"[]int nil", []int(nil), true}, {"[]int empty", []int{}, true}, {"[]int", []int{0}, false}, {"[2]int zero", [2]int{}, true}, {"[2]int", [2]int{0, 1}, false},
		{"[0]int", [0]int{}, true}, {"map nil", map[string]int(nil), true}, {"map empty", map[string]int{}, true}, {"map", map[string]int{"a": 0}, false}, {"*int nil", nilp, true}, {"*int", &one, false},
		{"[4]byte zero", [4]byte{}, true}, {"[2]string zero", [2]string{}, true}}
	others := []string{"", "ge=1", "to=1~2", "int", "phone"}
	for _, c := range cases {
		for _, o := range others {
			for _, withReq := range []bool{true, false} {
				n++
				var rl []string
				if withReq {
					rl = append(rl, "required")
				}
				if o != "" {
					rl = append(rl, o)
				}
				if len(rl) == 0 {
					continue
				}
				err := wbThroughStruct(c.v, rl)
				hasReq := err != nil && strings.Contains(err.Error(), "it is required")
				if withReq && hasReq != c.zero {
					rep.report("C03.struct", "field of type %s value %v rules %q: required reported=%v, want %v (error: %v)", c.name, c.v, rl, hasReq, c.zero, err)
				}
				if wbIsZero(c.v) && !withReq && err != nil {
					rep.report("C03.struct.skip", "field of type %s left empty, rules %q: got %v, want nil (empty values are not evaluated)", c.name, rl, err)
				}
				if !c.zero && withReq && o == "" && err != nil {
					rep.report("C03.struct.nonempty", "field of type %s value %v under required: got %v, want nil", c.name, c.v, err)
				}
			}
		}
	}
	// Var, map, URL
	for _, k := range wbKinds {
		for _, v := range wbValues[k] {
			n++
			z := wbIsZero(v)
			for name, err := range map[string]error{"Var": Var(v, "required"), "map": wbThroughMap(v, []string{"required"}), "[]map": wbThroughMapSlice(v, []string{"required"})} {
				if (err != nil) != z {
					rep.report("C03.entry", "%s(%v, required) = %v, want violated=%v", name, v, err, z)
				}
			}
			for name, err := range map[string]error{"Var": Var(v, "ge=100"), "map": wbThroughMap(v, []string{"ge=100"})} {
				if z && err != nil {
					rep.report("C03.entry.skip", "%s(%v, ge=100) = %v, want nil for an empty value", name, v, err)
				}
			}
		}
	}
	for _, s := range []string{"", "a"} {
		n++
		if err := wbThroughUrl(s, []string{"required"}, false, "before"); (err != nil) != (s == "") {
			rep.report("C03.url", "Url(k=%q, required) = %v", s, err)
		}
	}
	// known finding probes
	if err := Map(map[string]string{"b": "1"}, NewRule().Set("a", "required")); err == nil {
		fmt.Printf("BOUNDED-KNOWN tag=C03.missingkey Map({b:1}, {a: required}) = nil: a missing map entry under required is not reported\n")
	}
	if err := Url("http://h?b=1", NewRule().Set("a", "required")); err == nil {
		fmt.Printf("BOUNDED-KNOWN tag=C03.missingkey Url(?b=1, {a: required}) = nil: a missing URL parameter under required is not reported\n")
	}
	if err := Map(map[string]interface{}{"n": ""}, NewRule().Set("n", "required")); err == nil {
		fmt.Printf("BOUNDED-KNOWN tag=C03.ifacemap Map(map[string]interface{}{n: \"\"}, {n: required}) = nil: an empty string carried in an interface{} entry passes required\n")
	}
	fmt.Printf("BOUNDED name=C03.required cases=%d bound=23 typed values (all numeric kinds sampled, bool, nil/empty/non-empty slices, arrays incl. all-zero, maps, pointers to scalars) x 5 companion rules x with/without required through a struct field; 5 kinds x values through Var / map / []map; URL\n", n)
	if rep.viol > 0 {
		t.Fatalf("%d violations", rep.viol)
	}
}

// ---- C17 ---------------------------------------------------------------------------------------------------

func TestVerifBoundedC17(t *testing.T) {
	wbSkip(t)
	rep := &wbReporter{}
	n := 0
	type G struct {
		A string `valid:"either=1"`
		B string `valid:"either=1"`
		C string `valid:"either=1"`
		P int    `valid:"botheq=2"`
		Q int    `valid:"botheq=2"`
		R int    `valid:"botheq=2"`
		S int    `valid:"botheq=2"`
	}
	type W struct {
		L []G          `valid:"required"`
		N *G           `valid:"exist"`
		M map[string]G `valid:"exist"`
	}
	// an either group and a botheq group that share the id: they are different groups
	type sameID struct {
		A string `valid:"either=1"`
		B string `valid:"either=1"`
		P string `valid:"botheq=1"`
		Q string `valid:"botheq=1"`
	}
	for _, c := range []struct {
		v          sameID
		wantE, wantB int
	}{{sameID{"", "", "x", "x"}, 1, 0}, {sameID{"a", "", "x", "y"}, 0, 1}, {sameID{"", "", "x", "y"}, 1, 1}, {sameID{"a", "b", "x", "x"}, 0, 0}} {
		n++
		err := Struct(&c.v)
		ce, cb := 0, 0
		if err != nil {
			ce, cb = strings.Count(err.Error(), "they shouldn't all be empty"), strings.Count(err.Error(), "they should be equal")
		}
		if ce != c.wantE || cb != c.wantB {
			rep.report("C17.sameid", "Struct(%+v) = %v, want %d either clause(s) and %d botheq clause(s): groups either=1 and botheq=1 are distinct", c.v, err, c.wantE, c.wantB)
		}
		m := map[string]string{"A": c.v.A, "B": c.v.B, "P": c.v.P, "Q": c.v.Q}
		errM := Map(m, NewRule().Set("A,B", "either=1").Set("P,Q", "botheq=1"))
		ce, cb = 0, 0
		if errM != nil {
			ce, cb = strings.Count(errM.Error(), "they shouldn't all be empty"), strings.Count(errM.Error(), "they should be equal")
		}
		if ce != c.wantE || cb != c.wantB {
			rep.report("C17.sameid", "Map(%v) = %v, want %d either clause(s) and %d botheq clause(s)", m, errM, c.wantE, c.wantB)
		}
	}
	strs := []string{"", "x"}
	ints := []int{1, 9}
	count := func(err error, sub string) int {
		if err == nil {
			return 0
		}
		return strings.Count(err.Error(), sub)
	}
	for _, a := range strs {
		for _, b := range strs {
			for _, c := range strs {
				for _, p := range ints {
					for _, q := range ints {
						for _, r := range ints {
							for _, s := range ints {
								n++
								g := G{a, b, c, p, q, r, s}
								err := Struct(&g)
								wantE := 0
								if a == "" && b == "" && c == "" {
									wantE = 1
								}
								wantB := 0
								if !(p == q && q == r && r == s) {
									wantB = 1
								}
								if count(err, "they shouldn't all be empty") != wantE || count(err, "they should be equal") != wantB {
									rep.report("C17.flat", "Struct(%+v) = %v, want %d either clause(s) and %d botheq clause(s)", g, err, wantE, wantB)
								}
								if wantB == 1 && err != nil {
									for _, m := range []string{"\"G.P\"", "\"G.Q\"", "\"G.R\"", "\"G.S\""} {
										if !strings.Contains(err.Error(), m) {
											rep.report("C17.members", "Struct(%+v) = %v: the botheq clause must list every member, %s is missing", g, err, m)
										}
									}
								}
								// the same object as slice element next to a satisfied / violated sibling, nested, and as map entry
								ok := G{"x", "", "", 1, 1, 1, 1}
								w := W{L: []G{ok, g, ok}, N: &g, M: map[string]G{"k": g, "z": ok}}
								err = Struct(&w)
								if count(err, "they shouldn't all be empty") != 3*wantE || count(err, "they should be equal") != 3*wantB {
									rep.report("C17.perobject", "object %+v placed in a slice (between two satisfied siblings), behind a pointer and in a map: %d either and %d botheq clauses, want %d and %d (groups are judged per object): %v", g, count(err, "they shouldn't all be empty"), count(err, "they should be equal"), 3*wantE, 3*wantB, err)
								}
								// maps whose keys are not strings: the entries are still separate objects
								type WI struct {
									MI map[int32]G `valid:"exist"`
								}
								for what, e2 := range map[string]error{"field map[int32]G": Struct(&WI{MI: map[int32]G{1: g, 2: ok}}), "top-level map[uint8]*G": Struct(map[uint8]*G{3: &g, 4: &ok})} {
									if count(e2, "they shouldn't all be empty") != wantE || count(e2, "they should be equal") != wantB {
										rep.report("C17.perobject.key", "object %+v next to a satisfied sibling in a %s: %d either and %d botheq clauses, want %d and %d: %v", g, what, count(e2, "they shouldn't all be empty"), count(e2, "they should be equal"), wantE, wantB, e2)
									}
								}
							}
						}
					}
				}
			}
		}
	}
	// single member: rule-writing error
	type One struct {
		A string `valid:"either=7"`
		B int    `valid:"botheq=8"`
	}
	n++
	if err := Struct(&One{"x", 1}); err == nil || strings.Count(err.Error(), "is not ok") != 2 {
		rep.report("C17.single", "single-member groups: %v, want two rule-writing error clauses", err)
	}
	// map and URL input
	for _, a := range strs {
		for _, b := range strs {
			n++
			wantE := 0
			if a == "" && b == "" {
				wantE = 1
			}
			wantB := 0
			if a != b {
				wantB = 1
			}
			rm := NewRule().Set("a,b", "either=1", "botheq=2")
			if err := Map(map[string]string{"a": a, "b": b}, rm); count(err, "all be empty") != wantE || count(err, "should be equal") != wantB {
				rep.report("C17.map", "Map({a:%q,b:%q}) = %v, want %d either / %d botheq", a, b, err, wantE, wantB)
			}
			if err := Map([]map[string]string{{"a": "x", "b": "x"}, {"a": a, "b": b}}, rm); count(err, "all be empty") != wantE || count(err, "should be equal") != wantB {
				rep.report("C17.mapslice", "Map([{a:x,b:x},{a:%q,b:%q}]) = %v, want %d either / %d botheq (entries are judged independently)", a, b, err, wantE, wantB)
			}
			for _, q := range []string{"a=" + a + "&b=" + b, "z=9&a=" + a + "&b=" + b, "b=" + b + "&z=9&a=" + a} {
				if err := Url("http://h?"+q, rm); count(err, "all be empty") != wantE || count(err, "should be equal") != wantB {
					rep.report("C17.url", "Url(?%s) = %v, want %d either / %d botheq", q, err, wantE, wantB)
				}
			}
			if a == "" && b == "" {
				for _, q := range []string{"z=9&a&b", "a&b", "a&z=9&b"} {
					if err := Url("http://h?"+q, NewRule().Set("a,b", "either=1")); count(err, "all be empty") != 1 {
						rep.report("C17.url.bare", "Url(?%s, either on a,b) = %v, want the either clause (bare keys are empty)", q, err)
					}
				}
			}
		}
	}
	fmt.Printf("BOUNDED name=C17.groups cases=%d bound=all 2^7 value assignments of a 3-member either group and a 4-member botheq group, flat and repeated in a slice / behind a pointer / in a map; single-member groups; map, []map and URL input (incl. bare keys)\n", n)
	if rep.viol > 0 {
		t.Fatalf("%d violations", rep.viol)
	}
}

// ---- C16 ---------------------------------------------------------------------------------------------------

func TestVerifBoundedC16(t *testing.T) {
	wbSkip(t)
	rep := &wbReporter{}
	n := 0
	type In struct {
		Name string `valid:"to=1~3"`
		Note string
	}
	type Out struct {
		Name string `valid:"to=1~3"`
		Age  int    `valid:"le=10"`
		In   In     `valid:"required"`
		Ptr  *In    `valid:"exist"`
	}
	mk := func(outName string, age int, inName, note string) *Out {
		return &Out{Name: outName, Age: age, In: In{inName, note}, Ptr: &In{inName, note}}
	}
	has := func(err error, path string) bool { return err != nil && strings.Contains(err.Error(), "\""+path+"\"") }
	names := []string{"ab", "abcdef"}
	for _, on := range names {
		for _, in := range names {
			for _, age := range []int{5, 50} {
				v := mk(on, age, in, "n")
				// sequence of heterogeneous calls on the same types: each call judged by its own rules only
				for round := 0; round < 2; round++ {
					n++
					err := Struct(v)
					if has(err, "Out.Name") != (on == "abcdef") || has(err, "Out.Age") != (age == 50) || has(err, "Out.In.Name") != (in == "abcdef") || has(err, "Out.Ptr.Name") != (in == "abcdef") {
						rep.report("C16.tag", "round %d: Struct(%+v) with tag rules only = %v", round, *v, err)
					}
					// unscoped rule set: outermost struct only, replaces the mentioned field's tag rule entirely, others keep theirs
					err = Struct(v, NewRule().Set("Name", "to=5~9"))
					if has(err, "Out.Name") != (on == "ab") || has(err, "Out.Age") != (age == 50) || has(err, "Out.In.Name") != (in == "abcdef") {
						rep.report("C16.unscoped", "Struct(%+v, {Name: to=5~9}) = %v: the unscoped rule set applies to the outermost struct only and replaces only Name's rule", *v, err)
					}
					// typed rule set: wherever the type occurs, no other type
					err = NestedStructForRule(v, map[interface{}]RM{&In{}: NewRule().Set("Name", "to=5~9").Set("Note", "int")})
					if has(err, "Out.Name") != (on == "abcdef") || has(err, "Out.In.Name") != (in == "ab") || has(err, "Out.Ptr.Name") != (in == "ab") || !has(err, "Out.In.Note") || !has(err, "Out.Ptr.Note") {
						rep.report("C16.typed", "NestedStructForRule(%+v, In: {Name: to=5~9, Note: int}) = %v: typed rules apply to every In and to nothing else", *v, err)
					}
				}
			}
		}
	}
	// function resolution: per call > global > built-in; unknown name -> error clause, other rules still evaluated
	type F struct {
		A string `valid:"required,myfn,to=1~2"`
		B int    `valid:"required"`
		C string `valid:"nosuch,to=1~2"`
	}
	calls := ""
	mkfn := func(tag string) CommonValidFn {
		return func(errBuf *strings.Builder, validName, objName, fieldName string, tv reflect.Value) {
			calls += tag
			errBuf.WriteString(GetJoinValidErrStr(objName, fieldName, tv.String(), tag))
		}
	}
	n++
	f := &F{A: "abc", B: 1, C: "abc"}
	err := StructForFns(f, nil, Name2FnMap{"myfn": mkfn("percall")})
	if !has(err, "F.A") || !strings.Contains(err.Error(), "percall") || strings.Count(err.Error(), "\"F.A\"") != 2 || !strings.Contains(err.Error(), "nosuch") || strings.Count(err.Error(), "\"F.C\"") != 2 {
		rep.report("C16.fn", "per-call function / unknown name: %v", err)
	}
	for _, name := range []string{"required", "to", "phone"} {
		n++
		calls = ""
		type R struct {
			X string `valid:"required,to=1~2,phone"`
		}
		err := StructForFns(&R{X: "a"}, nil, Name2FnMap{name: mkfn("OVR" + name)})
		if !strings.Contains(calls, "OVR"+name) || err == nil || !strings.Contains(err.Error(), "OVR"+name) {
			rep.report("C16.fn.override", "a per-call function registered under the built-in name %q must be used instead of the built-in: calls=%q err=%v", name, calls, err)
		}
		// the next call without the function uses the built-in again
		err = Struct(&R{X: "a"})
		if err == nil || strings.Contains(err.Error(), "OVR") {
			rep.report("C16.fn.scope", "per-call function %q leaked into a later call: %v", name, err)
		}
	}
	fmt.Printf("BOUNDED name=C16.rules cases=%d bound=8 value assignments of a two-type nested struct x 2 rounds of the call sequence (tag rules, unscoped rule set, typed rule set); per-call/global/built-in function resolution incl. names colliding with built-ins; unknown rule names\n", n)
	if rep.viol > 0 {
		t.Fatalf("%d violations", rep.viol)
	}
}

// ---- C04 ---------------------------------------------------------------------------------------------------

func TestVerifBoundedC04(t *testing.T) {
	wbSkip(t)
	rep := &wbReporter{}
	n := 0
	type Leaf struct {
		Name string `valid:"to=1~2"`
	}
	type Mid struct {
		L   Leaf            `valid:"required"`
		P   *Leaf           `valid:"exist"`
		PP  **Leaf          `valid:"exist"`
		S   []Leaf          `valid:"exist"`
		SP  []*Leaf         `valid:"exist"`
		A   [2]Leaf         `valid:"exist"`
		M   map[string]Leaf `valid:"exist"`
		MI  map[int]*Leaf   `valid:"exist"`
		No  Leaf            // not marked: never validated
		NoP *Leaf
		u   Leaf `valid:"required"` // unexported: never validated
	}
	type Top struct {
		Mid  Mid    `valid:"required"`
		Mids []*Mid `valid:"exist"`
	}
	bad := Leaf{"toolong"}
	good := Leaf{"ab"}
	pbad := &bad
	var pnil *Leaf
	paths := func(err error) map[string]int {
		out := map[string]int{}
		for _, c := range wbClauses(err) {
			out[wbPath(c)]++
		}
		return out
	}
	check := func(name string, err error, want ...string) {
		n++
		got := paths(err)
		ok := len(got) == len(want)
		for _, w := range want {
			if got[w] != 1 {
				ok = false
			}
		}
		if !ok {
			rep.report("C04.paths", "%s: clause paths %v, want exactly %v (error: %v)", name, got, want, err)
		}
	}
	m := Mid{L: good}
	check("all empty", Struct(&Top{Mid: m}))
	m = Mid{L: bad}
	check("direct", Struct(&Top{Mid: m}), "Top.Mid.L.Name")
	m = Mid{L: good, P: pbad, PP: &pbad}
	check("pointer and pointer to pointer", Struct(&Top{Mid: m}), "Top.Mid.P.Name", "Top.Mid.PP.Name")
	m = Mid{L: good, PP: &pnil, SP: []*Leaf{nil, pbad, nil}, MI: map[int]*Leaf{7: nil}}
	check("nil sub-objects are skipped silently", Struct(&Top{Mid: m}), "Top.Mid.SP[1].Name")
	m = Mid{L: good, S: []Leaf{good, bad, bad}, A: [2]Leaf{bad, good}}
	check("slice and array indices", Struct(&Top{Mid: m}), "Top.Mid.S[1].Name", "Top.Mid.S[2].Name", "Top.Mid.A[0].Name")
	m = Mid{L: good, M: map[string]Leaf{"k1": bad, "k2": good}, MI: map[int]*Leaf{42: pbad, 7: &good}}
	check("map keys (string and int)", Struct(&Top{Mid: m}), "Top.Mid.M[k1].Name", "Top.Mid.MI[42].Name")
	m = Mid{L: good, No: bad, NoP: pbad, u: bad}
	check("unmarked and unexported fields are never validated", Struct(&Top{Mid: m}))
	check("depth", Struct(&Top{Mid: Mid{L: good}, Mids: []*Mid{nil, {L: bad, S: []Leaf{bad}}}}), "Top.Mids[1].L.Name", "Top.Mids[1].S[0].Name")
	// top-level collections
	check("top-level slice", Struct([]Leaf{good, bad}), "valid.Leaf[1].Name")
	check("top-level slice of pointers with nil", Struct([]*Leaf{nil, pbad}), "*valid.Leaf[1].Name")
	check("top-level map", Struct(map[string]Leaf{"k": bad}), "map[k].Name")
	check("pointer to pointer at top level", Struct(&pbad), "Leaf.Name")
	type T struct {
		At  interface{} `valid:"exist"`
		Tm  struct{ X int }
		Num int `valid:"exist"`
	}
	fmt.Printf("BOUNDED name=C04.paths cases=%d bound=directed catalogue of object graphs: value / pointer / pointer-to-pointer / slice / slice of pointers / array / string- and int-keyed maps, nil and zero sub-objects, unmarked and unexported fields, two levels deep, top-level slice / map / pointers\n", n)
	if rep.viol > 0 {
		t.Fatalf("%d violations", rep.viol)
	}
}
