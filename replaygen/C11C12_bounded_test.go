package valid

// Bounded stand-ins for C12 (a call's result depends only on its own arguments and stays fixed) and C11 (concurrent
// validations do not interfere; run with -race). Run through go test -overlay against the real package; DESIGN.md §4.3.

import (
	"fmt"
	"os"
	"reflect"
	"sort"
	"strconv"
	"strings"
	"sync"
	"testing"
)

type hcUser struct {
	Name  string `valid:"to=2~4" alt:"required,phone"`
	Age   int    `valid:"le=10"`
	Phone string `valid:"phone" alt:"to=1~3"`
	Inner hcInner `valid:"required"`
	List  []*hcInner `valid:"exist"`
}
type hcInner struct {
	Note string `valid:"to=1~3" alt:"int"`
	G1   string `valid:"either=1"`
	G2   string `valid:"either=1"`
}

type hcCall struct {
	name string
	run  func() string
}

// hcErr: the error text with its clauses sorted (the order among map entries and among group clauses is unspecified)
func hcErr(err error) string {
	if err == nil {
		return "<nil>"
	}
	cl := strings.Split(err.Error(), ErrEndFlag)
	sort.Strings(cl)
	return strings.Join(cl, ErrEndFlag)
}

func hcCalls() []hcCall {
	u1 := &hcUser{Name: "abcdefgh", Age: 50, Phone: "x", Inner: hcInner{Note: "toolong"}, List: []*hcInner{{Note: "abcd", G1: "x"}, nil}}
	u2 := &hcUser{Name: "abc", Age: 5, Phone: "13800138000", Inner: hcInner{Note: "ab", G1: "g"}}
	ruleA := func() RM { return NewRule().Set("Name", "to=5~10").Set("Age", "ge=100") }
	fn := func(errBuf *strings.Builder, validName, objName, fieldName string, tv reflect.Value) {
		errBuf.WriteString(GetJoinValidErrStr(objName, fieldName, tv.String(), "custom fn"))
	}
	return []hcCall{
		{"Struct(u1)", func() string { return hcErr(Struct(u1)) }},
		{"Struct(u2)", func() string { return hcErr(Struct(u2)) }},
		{"Struct(u1, ruleA)", func() string { return hcErr(Struct(u1, ruleA())) }},
		{"Struct(u2, ruleA)", func() string { return hcErr(Struct(u2, ruleA())) }},
		{"ValidateStruct(u1, alt)", func() string { return hcErr(ValidateStruct(u1, "alt")) }},
		{"ValidateStruct(u2, alt)", func() string { return hcErr(ValidateStruct(u2, "alt")) }},
		{"NestedStructForRule(u1, Inner)", func() string {
			return hcErr(NestedStructForRule(u1, map[interface{}]RM{&hcInner{}: NewRule().Set("Note", "to=5~9")}))
		}},
		{"StructForFns(u2, phone->fn)", func() string { return hcErr(StructForFns(u2, nil, Name2FnMap{"phone": fn})) }},
		{"StructForFns(u1, ruleA, le->fn)", func() string { return hcErr(StructForFns(u1, ruleA(), Name2FnMap{"le": fn, "ge": fn})) }},
		{"Var(abc, to=5~6|m)", func() string { return hcErr(Var("abc", "to=5~6|m", "phone")) }},
		{"Var(7, le=3)", func() string { return hcErr(Var(7, "required", "le=3")) }},
		{"Map", func() string { return hcErr(Map(map[string]string{"a": "", "b": "xyz"}, NewRule().Set("a", "required").Set("b", "to=1~2"))) }},
		{"Url", func() string { return hcErr(Url("http://h/p?a=1&b=xyz", NewRule().Set("a", "ge=5").Set("b", "to=1~2"))) }},
		{"MapFn(custom rule x)", func() string {
			return hcErr(MapFn(map[string]string{"a": "v"}, NewRule().Set("a", "x,phone"), Name2FnMap{"x": fn, "phone": fn}))
		}},
		{"Map(rule x, no function)", func() string { return hcErr(Map(map[string]string{"a": "v"}, NewRule().Set("a", "x,phone"))) }},
		{"VarForFn(fn)", func() string { return hcErr(VarForFn("v", fn)) }},
		{"Var(rule y, no function)", func() string { return hcErr(Var("v", "y", "email")) }},
		{"VVar with per-call y", func() string { return hcErr(NewVVar().SetRules("y", "email").SetValidFn("y", fn).SetValidFn("email", fn).Valid("v")) }},
		{"UrlForFn(custom rule int)", func() string { return hcErr(UrlForFn("h?a=v", "int", fn)) }},
		{"VUrl with per-call z", func() string { return hcErr(NewVUrl().SetRule(NewRule().Set("a", "z,int")).SetValidFn("z", fn).SetValidFn("int", fn).Valid("h?a=v")) }},
		{"Url(rule z, no function)", func() string { return hcErr(Url("h?a=v", NewRule().Set("a", "z,int"))) }},
		{"StructForFns(bare clause builder)", func() string {
			bare := func(errBuf *strings.Builder, validName, objName, fieldName string, tv reflect.Value) {
				errBuf.WriteString(GetJoinValidErrStr(objName, fieldName, tv.String()))
			}
			return hcErr(StructForFns(u1, nil, Name2FnMap{"phone": bare, "to": bare}))
		}},
		{"Struct(nil, rules)", func() string { return hcErr(Struct((*hcUser)(nil), ruleA())) }},
		{"SetRule twice", func() string {
			base := NewRule().Set("Name", "required")
			vs := NewVStruct().SetRule(base).SetRule(NewRule().Set("Age", "ge=100"))
			r := hcErr(vs.Valid(u2))
			return r + " | base=" + fmt.Sprint(map[string]string(base))
		}},
	}
}

func TestVerifBoundedC12(t *testing.T) {
	if os.Getenv("VERIF_BOUNDED") == "" {
		t.Skip("bounded stand-in: run by govc")
	}
	seed, _ := strconv.Atoi(os.Getenv("VERIF_SEED"))
	calls := hcCalls()
	viol := 0
	report := func(f string, a ...interface{}) {
		viol++
		if viol <= 5 {
			fmt.Printf("BOUNDED-VIOLATION name=C12.history %s\n", fmt.Sprintf(f, a...))
		}
	}
	// reference: every call as the first use of the library's caches for its types would need a fresh process; instead the
	// reference is the call's result at its first execution, and every later execution after any other history must agree
	ref := make([]string, len(calls))
	held := make([]string, len(calls)) // results handed out earlier, re-read at the end
	for i, c := range calls {
		ref[i] = c.run()
		held[i] = ref[i]
	}
	n := 0
	// all ordered pairs and triples (prefix histories), then long pseudo-random sequences
	for i := range calls {
		for j := range calls {
			n++
			calls[i].run()
			if got := calls[j].run(); got != ref[j] {
				report("%s after %s returned %q, alone it returned %q", calls[j].name, calls[i].name, got, ref[j])
			}
		}
	}
	x := uint32(seed*2654435761 + 12345)
	rounds := 3000
	if os.Getenv("VERIF_TIER") == "thorough" {
		rounds = 60000
	}
	prev := -1
	for k := 0; k < rounds; k++ {
		x = x*1664525 + 1013904223
		j := int(x>>8) % len(calls)
		n++
		if got := calls[j].run(); got != ref[j] {
			p := "-"
			if prev >= 0 {
				p = calls[prev].name
			}
			report("%s (after %s, step %d of a random history) returned %q, alone it returned %q", calls[j].name, p, k, got, ref[j])
		}
		prev = j
	}
	for i := range calls {
		if held[i] != ref[i] {
			report("the result of %s handed out earlier changed afterwards", calls[i].name)
		}
	}
	// parsed rule tokens stay fixed when later calls reuse internal buffers
	toks := ValidNamesSplit("required|'a,b',to=1~3,re='x,y'")
	snapshot := append([]string{}, toks...)
	for k := 0; k < 2000; k++ {
		ValidNamesSplit("zzzzzzzz|'q,q',yyyyyyyy,re='w,w'")
		StrEscape("zz\"zz")
	}
	if fmt.Sprint(toks) != fmt.Sprint(snapshot) {
		report("tokens %q handed out by ValidNamesSplit changed to %q after later calls", snapshot, toks)
	}
	fmt.Printf("BOUNDED name=C12.history cases=%d bound=%d heterogeneous calls (types, tags, typed/unscoped rule maps, per-call functions, Var/Map/Url, SetRule twice): all ordered pairs, then a seeded random history of %d calls; every result equals the call's result alone; earlier results and tokens re-read at the end\n", n, len(calls), rounds)
	if viol > 0 {
		t.Fatalf("%d violations", viol)
	}
}

func TestVerifBoundedC11(t *testing.T) {
	if os.Getenv("VERIF_BOUNDED") == "" {
		t.Skip("bounded stand-in: run by govc")
	}
	calls := hcCalls()
	ref := make([]string, len(calls))
	for i, c := range calls {
		ref[i] = c.run()
	}
	viol := 0
	var mu sync.Mutex
	report := func(f string, a ...interface{}) {
		mu.Lock()
		defer mu.Unlock()
		viol++
		if viol <= 5 {
			fmt.Printf("BOUNDED-VIOLATION name=C11.concurrent %s\n", fmt.Sprintf(f, a...))
		}
	}
	workers, iters := 16, 300
	if os.Getenv("VERIF_TIER") == "thorough" {
		workers, iters = 32, 2000
	}
	n := 0
	// more distinct struct types than a small cache holds, first use racing on brand-new types each round
	for round := 0; round < 20; round++ {
		ty := reflect.StructOf([]reflect.StructField{{Name: "A" + strconv.Itoa(round), Type: reflect.TypeOf(""), Tag: `valid:"required,to=1~3"`}})
		val := reflect.New(ty)
		val.Elem().Field(0).SetString("toolong")
		want := hcErr(Struct(reflect.New(ty).Interface())) // required violated on the empty one
		_ = want
		var wg sync.WaitGroup
		done := make(chan struct{})
		go func() {
			for w := 0; w < workers; w++ {
				wg.Add(1)
				go func(w int) {
					defer wg.Done()
					for k := 0; k < iters/20; k++ {
						j := (w + k) % len(calls)
						if got := calls[j].run(); got != ref[j] {
							report("%s run concurrently returned %q, alone it returned %q", calls[j].name, got, ref[j])
						}
						if got := hcErr(Struct(val.Interface())); !strings.Contains(got, "more than 3") {
							report("a brand-new struct type validated concurrently for the first time returned %q", got)
						}
					}
				}(w)
			}
			wg.Wait()
			close(done)
		}()
		<-done
		n += workers * (iters / 20) * 2
	}
	fmt.Printf("BOUNDED name=C11.concurrent cases=%d bound=%d goroutines x 20 rounds of heterogeneous calls on shared and brand-new (first-use) struct types, under the race detector; every result equals the call's result alone\n", n, workers)
	if viol > 0 {
		t.Fatalf("%d violations", viol)
	}
}
