package valid

// Bounded stand-in for C13 (validation is total: bad input or bad rules yield an error, never a crash): seeded random
// values of run-time synthesised types, tagged with rule texts drawn from a catalogue of well-formed, malformed and
// random-byte rules, through every entry point; a directed catalogue of nil / wrong-kind shapes. Any panic is a violation.
// Run through go test -overlay against the real package; DESIGN.md §4.3.

import (
	"fmt"
	"math/rand"
	"os"
	"reflect"
	"strconv"
	"strings"
	"testing"
	"time"
)

var c13Rules = []string{
	"required", "exist", "either=1", "botheq=2", "to=1~3", "oto=0~9", "ge=1", "le=5", "gt=0", "lt=9", "eq=3", "noeq=3", "in=(a/b/1)", "include=(ab/cd)",
	"phone", "email", "idcard", "year", "year2month", "date", "datetime", "int", "ints", "float", "re='^a+$'", "unique", "json", "prefix=a", "suffix=b", "file", "dir", "ip", "ipv4", "ipv6",
	"required|msg", "to=1~3|长度", "datetime='/, ,:'", "ints=-", "year2month=/", "date='.'",
	// malformed
	"", "to", "to=", "to=~", "to=a~b", "to=1~", "to=~3", "to=1~2~3", "to=99999999999999999999~1", "ge=", "ge=x", "eq=1.5", "in", "in=", "in=(", "in=)", "in=)(", "in=()", "in=(/)", "include=(",
	"re", "re=", "re='", "re=''", "re='[a-z'", "re='('|m", "re=abc", "re='a'b'c'", "datetime='", "datetime=''", "datetime=',,,,,,'", "datetime='a,b,c,d,e,f,g'", "ints=", "ints=''", "year2month=", "date=''''",
	"either", "either=", "botheq", "botheq=", "either=1|", "zz", "zz=1", "=", "=1", "|", "||", "|m", "a|b|c", "'", "''", "'''", "required,,exist", ",", ",,,", "to=1~3,", "(", ")", "~", "prefix", "prefix=", "suffix=",
	"required=", "exist=1", "phone=1", "json=x", "unique=;", "file=", "ip=4",
	"re='abc\\", "re='\\", "re='a\\'b\\", "re='\\'", "re='a\\'", "in=('a/b)", "in=(a/'b)", "include=('')", "datetime='\\'", "ints='", "ints='''", "to='1'~'2'",
}

var c13Keys = []string{"re", "in", "include", "to", "oto", "ge", "le", "gt", "lt", "eq", "noeq", "datetime", "date", "year2month", "ints", "prefix", "suffix", "either", "botheq", "required", "unique", "zz"}

// keyed: a known rule name followed by random bytes (reaches the argument parser of every rule)
func (g *c13Gen) keyed() string {
	b := make([]byte, g.r.Intn(10))
	for i := range b {
		b[i] = []byte{'\'', '\'', '|', '=', ',', '(', ')', '~', '/', 'a', '1', '9', '-', ' ', '\\', '\\', '[', ']', '^', '$', '.', '*', 0xe4, 0xb8, 0xad}[g.r.Intn(25)]
	}
	return c13Keys[g.r.Intn(len(c13Keys))] + []string{"=", "='", "=(", "", "|"}[g.r.Intn(5)] + string(b)
}

type c13Gen struct {
	r *rand.Rand
	n int
}

func (g *c13Gen) rule() string {
	switch g.r.Intn(10) {
	case 0: // random bytes
		b := make([]byte, g.r.Intn(12))
		for i := range b {
			b[i] = []byte{0, '\'', '|', '=', ',', '(', ')', '~', '/', 'a', '1', 0xff, 0xe4, 0xb8, ' ', '\\', '"', '`'}[g.r.Intn(18)]
		}
		return string(b)
	case 1, 2: // several rules
		return c13Rules[g.r.Intn(len(c13Rules))] + "," + c13Rules[g.r.Intn(len(c13Rules))] + "," + c13Rules[g.r.Intn(len(c13Rules))]
	}
	return c13Rules[g.r.Intn(len(c13Rules))]
}

var c13Scalars = []reflect.Type{reflect.TypeOf(""), reflect.TypeOf(true), reflect.TypeOf(0), reflect.TypeOf(int8(0)), reflect.TypeOf(int64(0)), reflect.TypeOf(uint(0)), reflect.TypeOf(uint8(0)),
	reflect.TypeOf(uint64(0)), reflect.TypeOf(float32(0)), reflect.TypeOf(0.0), reflect.TypeOf(time.Time{}), reflect.TypeOf((*interface{})(nil)).Elem(), reflect.TypeOf((*error)(nil)).Elem(),
	reflect.TypeOf([]byte(nil)), reflect.TypeOf(complex(0, 0)), reflect.TypeOf(uintptr(0)), reflect.TypeOf((func())(nil)), reflect.TypeOf((chan int)(nil))}

func (g *c13Gen) typ(depth int) reflect.Type {
	if depth <= 0 || g.r.Intn(3) == 0 {
		return c13Scalars[g.r.Intn(len(c13Scalars))]
	}
	switch g.r.Intn(9) {
	case 0, 1:
		return g.structType(depth - 1)
	case 2:
		return reflect.PtrTo(g.typ(depth - 1))
	case 3:
		return reflect.PtrTo(reflect.PtrTo(g.structType(depth - 1)))
	case 4:
		return reflect.SliceOf(g.typ(depth - 1))
	case 5:
		return reflect.ArrayOf(g.r.Intn(3), g.typ(depth-1))
	case 6:
		return reflect.MapOf(reflect.TypeOf(""), g.typ(depth-1))
	case 7:
		return reflect.MapOf(reflect.TypeOf(0), g.typ(depth-1))
	}
	return reflect.MapOf(reflect.TypeOf(0.5), reflect.PtrTo(g.structType(depth-1)))
}

func (g *c13Gen) structType(depth int) reflect.Type {
	nf := g.r.Intn(4)
	var fs []reflect.StructField
	for i := 0; i < nf; i++ {
		g.n++
		f := reflect.StructField{Name: fmt.Sprintf("F%d", g.n), Type: g.typ(depth)}
		if g.r.Intn(5) > 0 {
			tag := g.rule()
			if !strings.ContainsAny(tag, "\"\x00`\\") {
				f.Tag = reflect.StructTag(`valid:"` + tag + `" alt:"` + g.rule() + `"`)
				if strings.Contains(string(f.Tag), "\"\"") || strings.Count(string(f.Tag), "\"") != 4 {
					f.Tag = reflect.StructTag(`valid:"required"`)
				}
			}
		}
		if g.r.Intn(6) == 0 {
			f.Name = fmt.Sprintf("u%d", g.n)
			f.PkgPath = "gitee.com/xuesongtao/protoc-go-valid/valid"
		}
		fs = append(fs, f)
	}
	return reflect.StructOf(fs)
}

var c13Strs = []string{"", "a", "abc", "13800138000", "a@b.cn", "2022-11-09", "2022-11-09 10:05:00", "1,2,3", "1.5", "{\"a\":1}", "中文", "a,b,a", "\x00\xff", "127.0.0.1", "::1", "/tmp", "%zz"}

func (g *c13Gen) fill(v reflect.Value, depth int) {
	if !v.CanSet() {
		return
	}
	switch v.Kind() {
	case reflect.String:
		v.SetString(c13Strs[g.r.Intn(len(c13Strs))])
	case reflect.Bool:
		v.SetBool(g.r.Intn(2) == 0)
	case reflect.Int, reflect.Int8, reflect.Int16, reflect.Int32, reflect.Int64:
		v.SetInt(int64(g.r.Intn(7) - 2))
	case reflect.Uint, reflect.Uint8, reflect.Uint16, reflect.Uint32, reflect.Uint64, reflect.Uintptr:
		v.SetUint(uint64(g.r.Intn(5)))
	case reflect.Float32, reflect.Float64:
		v.SetFloat([]float64{0, 1.5, -2, 1e300}[g.r.Intn(4)])
	case reflect.Struct:
		if v.Type() == reflect.TypeOf(time.Time{}) {
			if g.r.Intn(2) == 0 {
				v.Set(reflect.ValueOf(time.Unix(1600000000, 0)))
			}
			return
		}
		for i := 0; i < v.NumField(); i++ {
			g.fill(v.Field(i), depth)
		}
	case reflect.Ptr:
		if g.r.Intn(3) != 0 && depth > 0 {
			p := reflect.New(v.Type().Elem())
			g.fill(p.Elem(), depth-1)
			v.Set(p)
		}
	case reflect.Interface:
		if v.Type().NumMethod() == 0 {
			switch g.r.Intn(5) {
			case 0:
				v.Set(reflect.ValueOf("s"))
			case 1:
				v.Set(reflect.ValueOf(3))
			case 2:
				v.Set(reflect.ValueOf([]int{1}))
			case 3:
				v.Set(reflect.ValueOf((*int)(nil)))
			}
		}
	case reflect.Slice:
		if g.r.Intn(3) != 0 && depth > 0 {
			n := g.r.Intn(3)
			s := reflect.MakeSlice(v.Type(), n, n)
			for i := 0; i < n; i++ {
				g.fill(s.Index(i), depth-1)
			}
			v.Set(s)
		}
	case reflect.Array:
		for i := 0; i < v.Len(); i++ {
			g.fill(v.Index(i), depth-1)
		}
	case reflect.Map:
		if g.r.Intn(3) != 0 && depth > 0 {
			m := reflect.MakeMap(v.Type())
			for i := 0; i < g.r.Intn(3); i++ {
				k := reflect.New(v.Type().Key()).Elem()
				switch k.Kind() {
				case reflect.String:
					k.SetString(fmt.Sprintf("k%d", i))
				case reflect.Int:
					k.SetInt(int64(i))
				case reflect.Float64:
					k.SetFloat(float64(i) + 0.5)
				}
				e := reflect.New(v.Type().Elem()).Elem()
				g.fill(e, depth-1)
				m.SetMapIndex(k, e)
			}
			v.Set(m)
		}
	}
}

func TestVerifBoundedC13(t *testing.T) {
	if os.Getenv("VERIF_BOUNDED") == "" {
		t.Skip("bounded stand-in: run by govc")
	}
	seed, _ := strconv.Atoi(os.Getenv("VERIF_SEED"))
	n := 40000
	if os.Getenv("VERIF_TIER") == "thorough" {
		n = 600000
	}
	g := &c13Gen{r: rand.New(rand.NewSource(int64(seed) + 13))}
	viol, cases := 0, 0
	try := func(what string, f func()) {
		cases++
		defer func() {
			if r := recover(); r != nil {
				viol++
				if viol <= 5 {
					fmt.Printf("BOUNDED-VIOLATION name=C13.total %s panicked: %v\n", what, r)
				}
			}
		}()
		f()
	}
	// directed catalogue
	var nilPtr *struct{ A string `valid:"required"` }
	var nilMap map[string]string
	var nilIface interface{}
	type inner struct {
		S string `valid:"required"`
	}
	type outer struct {
		P   *inner            `valid:"required"`
		PP  **inner           `valid:"exist"`
		L   []*inner          `valid:"exist"`
		M   map[string]*inner `valid:"exist"`
		I   interface{}       `valid:"required"`
		E   error             `valid:"exist"`
		T   time.Time         `valid:"required"`
		TP  *time.Time        `valid:"exist"`
		Fn  func()            `valid:"required"`
		Ch  chan int          `valid:"exist"`
		G1  []int             `valid:"either=1"`
		G2  map[int]int       `valid:"either=1"`
		B1  []string          `valid:"botheq=1"`
		B2  []string          `valid:"botheq=1"`
		Str string            `valid:"re='[a-z',in=)(,datetime=',,,,,',to=a~b"`
	}
	pin := (*inner)(nil)
	for i, v := range []interface{}{nil, nilPtr, &nilPtr, nilMap, nilIface, 3, "s", []int{1}, []*inner{nil, {}}, map[string]*inner{"a": nil}, map[int]inner{1: {}}, &outer{}, outer{},
		&outer{PP: &pin, L: []*inner{nil}, M: map[string]*inner{"x": nil}, I: (*inner)(nil), B1: []string{"a"}, B2: []string{"a"}, Str: "x"}, []interface{}{nil, 1, &inner{}}, [2]*inner{}, struct{}{}, &struct{ u int }{}, time.Now(), new(time.Time),
		func() {}, make(chan int), 1.5, true, complex(1, 2), uintptr(1), []byte("ab"), map[string]interface{}{"a": nil, "b": []int{1}}, []map[string]string{nil, {"a": "b"}}, map[float64]string{1.5: "x"}} {
		v := v
		for _, rule := range []string{"required", "to=1~3,zz", "re='[a-z'", "in=)(", "either=1", "botheq=1,exist", "", "'"} {
			rule := rule
			try(fmt.Sprintf("Struct(case %d)", i), func() { Struct(v) })
			try(fmt.Sprintf("Struct(case %d, rule %q)", i, rule), func() { Struct(v, NewRule().Set("S,P,Str,A", rule)) })
			try(fmt.Sprintf("ValidateStruct(case %d, alt)", i), func() { ValidateStruct(v, "alt") })
			try(fmt.Sprintf("NestedStructForRule(case %d)", i), func() { NestedStructForRule(v, map[interface{}]RM{&inner{}: NewRule().Set("S", rule), inner{}: nil}) })
			try(fmt.Sprintf("Var(case %d, %q)", i, rule), func() { Var(v, rule) })
			try(fmt.Sprintf("Var(case %d, no rule)", i), func() { Var(v) })
			try(fmt.Sprintf("Map(case %d, %q)", i, rule), func() { Map(v, NewRule().Set("a,b,x", rule)) })
			try(fmt.Sprintf("Map(case %d, nil rules)", i), func() { Map(v, nil) })
			try(fmt.Sprintf("GetDumpStructStr(case %d)", i), func() {
				if v != nil && reflect.ValueOf(v).Kind() != reflect.Func && reflect.ValueOf(v).Kind() != reflect.Chan {
					_ = v
				}
			})
		}
	}
	// typed-nil pointers whose type has a String method, where a rule renders the value
	type strs struct {
		L []*time.Time `valid:"unique"`
		N []*time.Time `valid:"ints"`
		I interface{}  `valid:"eq=3,in=(a/b),int,float,noeq=1"`
		J interface{}  `valid:"required,to=1~3"`
	}
	try("Struct(nil Stringer elements)", func() {
		Struct(&strs{L: []*time.Time{nil, nil}, N: []*time.Time{nil}, I: (*time.Time)(nil), J: (*time.Time)(nil)})
	})
	for _, rule := range c13Rules {
		rule := rule
		try(fmt.Sprintf("Var(nil Stringer, %q)", rule), func() {
			Var([]*time.Time{nil, nil}, rule)
			Var([]interface{}{(*time.Time)(nil), "a"}, rule)
			Map(map[string]interface{}{"a": (*time.Time)(nil)}, NewRule().Set("a", rule))
		})
	}
	for _, u := range []string{"", "?", "h?a", "h?a=1&b", "h?=&=&", "h?a=%zz", "%zz", "h?a=1=2=3&&&", "h?a=中&b=\x00", "h?" + strings.Repeat("a=1&", 50)} {
		for _, rule := range c13Rules {
			u, rule := u, rule
			try(fmt.Sprintf("Url(%q, %q)", u, rule), func() { Url(u, NewRule().Set("a,b", rule)) })
		}
		try(fmt.Sprintf("Url(%q, nil)", u), func() { Url(u, nil) })
	}
	for _, rule := range c13Rules {
		rule := rule
		for _, v := range []interface{}{"", "abc", "13800138000", 0, 5, -1, uint8(3), 2.5, float32(1), []int{}, []int{1, 2, 1}, []string{"a", "1"}, [2]string{"x", "x"}, []float64{0.5}, []interface{}{1, "a"}, true} {
			v := v
			try(fmt.Sprintf("Var(%#v, %q)", v, rule), func() { Var(v, rule) })
			try(fmt.Sprintf("Var(%#v, %q, required)", v, rule), func() { Var(v, "required", rule, rule+"|m") })
		}
		try(fmt.Sprintf("Map(rule %q)", rule), func() {
			Map(map[string]interface{}{"a": "x", "b": 3, "c": nil, "d": []int{1}}, NewRule().Set("a,b,c,d,e", rule))
			Map(map[string]string{"a": "", "b": "xyz"}, NewRule().Set("a", rule).Set("b", rule))
			Map([]map[string]int{{"a": 1}, nil, {"b": 0}}, NewRule().Set("a,b", rule))
		})
		try(fmt.Sprintf("helpers(%q)", rule), func() {
			ValidNamesSplit(rule)
			ParseValidNameKV(rule)
			GetOnlyExplainErr(rule)
			JoinTag2Val(rule, "v", "m")
		})
	}
	// random arguments for every rule name, through Var / Map / Url / a struct field with a per-call rule
	type one struct{ S string }
	for i := 0; i < n/2; i++ {
		rule := g.keyed()
		val := c13Strs[1+g.r.Intn(len(c13Strs)-1)]
		try(fmt.Sprintf("Var(%q, %q)", val, rule), func() { Var(val, rule) })
		switch i % 4 {
		case 0:
			try(fmt.Sprintf("Var([]int{1,2}, %q)", rule), func() { Var([]int{1, 2}, rule) })
		case 1:
			try(fmt.Sprintf("Struct(&{S:%q}, S:%q)", val, rule), func() { Struct(&one{val}, NewRule().Set("S", rule)) })
		case 2:
			try(fmt.Sprintf("Map({a:%q}, a:%q)", val, rule), func() { Map(map[string]string{"a": val}, NewRule().Set("a", rule)) })
		case 3:
			try(fmt.Sprintf("Url(?a=%q, a:%q)", val, rule), func() { Url("h?a="+val, NewRule().Set("a", rule)) })
		}
	}
	// random object graphs
	for i := 0; i < n; i++ {
		ty := g.structType(2)
		v := reflect.New(ty)
		g.fill(v.Elem(), 3)
		what := fmt.Sprintf("random value #%d of type %s", i, ty)
		if len(what) > 600 {
			what = what[:600] + "..."
		}
		try("Struct("+what+")", func() { Struct(v.Interface()) })
		try("ValidateStruct(alt, "+what+")", func() { ValidateStruct(v.Interface(), "alt") })
		switch i % 5 {
		case 0:
			try("Struct(value, not pointer: "+what+")", func() { Struct(v.Elem().Interface()) })
		case 1:
			s := reflect.MakeSlice(reflect.SliceOf(v.Type()), 2, 2)
			s.Index(0).Set(v)
			try("Struct(slice with a nil element: "+what+")", func() { Struct(s.Interface()) })
		case 2:
			m := reflect.MakeMap(reflect.MapOf(reflect.TypeOf(""), v.Type()))
			m.SetMapIndex(reflect.ValueOf("k"), v)
			m.SetMapIndex(reflect.ValueOf("nil"), reflect.Zero(v.Type()))
			try("Struct(map with a nil element: "+what+")", func() { Struct(m.Interface()) })
		case 3:
			r := g.rule()
			try(fmt.Sprintf("Struct(%s, rules for every field = %q)", what, r), func() {
				rm := NewRule()
				for j := 0; j < ty.NumField(); j++ {
					rm.Set(ty.Field(j).Name, r)
				}
				Struct(v.Interface(), rm)
			})
		case 4:
			if ty.NumField() > 0 {
				fv := v.Elem().Field(0)
				if fv.CanInterface() {
					r := g.rule()
					try(fmt.Sprintf("Var(field 0 of %s, %q)", what, r), func() { Var(fv.Interface(), r) })
					try(fmt.Sprintf("Map(field 0 of %s, %q)", what, r), func() { Map(fv.Interface(), NewRule().Set("k0,k1", r)) })
				}
			}
		}
	}
	fmt.Printf("BOUNDED name=C13.total cases=%d bound=directed catalogue (30 nil / typed-nil / wrong-kind values x 8 rule texts x Struct, ValidateStruct, NestedStructForRule, Var, Map; 10 URLs x %d rule texts; 16 scalar/slice values x every rule text) + %d random arguments for every rule name through Var/Struct/Map/Url + %d seeded random values of synthesised struct types (depth 2: pointers to pointers, nil elements, interface/func/chan/time fields, int-/float-keyed maps) tagged with well-formed, malformed and random-byte rules: no entry point panics\n", cases, len(c13Rules), n/2, n)
	if viol > 0 {
		t.Fatalf("%d violations", viol)
	}
}
