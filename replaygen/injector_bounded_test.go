package main

// Bounded stand-ins for the injector properties C06, C07, C19 (run through go test -overlay against the real packages
// main + file; see DESIGN.md §4.3). Go source files are generated into a temporary directory; the REAL dispatch functions
// handleFile / handleDir / handlePatternFiles (and through them file.ParseFile / file.WriteFile) are run on them; the
// files before/after are compared byte-wise and through go/parser + reflect.StructTag.

import (
	"bytes"
	"fmt"
	"go/ast"
	"go/parser"
	"go/token"
	"os"
	"path/filepath"
	"reflect"
	"strings"
	"testing"
)

type ibField struct {
	name    string
	tag     string // existing tag literal content ("" = no tag literal)
	comment string // trailing comment text ("" = none)
	typ     string // field type ("" = string); "-" = embedded field (the name is the embedded type)
}

type ibReporter struct{ viol int }

func (r *ibReporter) report(name, f string, a ...interface{}) {
	r.viol++
	if r.viol <= 5 {
		fmt.Printf("BOUNDED-VIOLATION name=%s %s\n", name, fmt.Sprintf(f, a...))
	}
}

func ibSkip(t *testing.T) {
	if os.Getenv("VERIF_BOUNDED") == "" {
		t.Skip("bounded stand-in: run by govc")
	}
}

func ibSource(header string, structs [][]ibField) string {
	var b strings.Builder
	b.WriteString("// " + header + "\npackage p\n\nimport \"time\"\n\nvar _ = time.Now // 非 ASCII 注释 @tag not:\"a field\"\n\n")
	for si, fs := range structs {
		fmt.Fprintf(&b, "// S%d 说明 @tag doc:\"comment\"\ntype S%d struct {\n", si, si)
		for _, f := range fs {
			switch f.typ {
			case "":
				fmt.Fprintf(&b, "\t%s string", f.name)
			case "-":
				fmt.Fprintf(&b, "\t%s", f.name)
			default:
				fmt.Fprintf(&b, "\t%s %s", f.name, f.typ)
			}
			if f.tag != "" {
				b.WriteString(" `" + f.tag + "`")
			}
			if f.comment != "" {
				b.WriteString(" // " + f.comment)
			}
			b.WriteString("\n")
		}
		b.WriteString("}\n\nfunc (S" + fmt.Sprint(si) + ") M() string { return `raw @tag x:\"y\"` }\n\n")
	}
	return b.String()
}

// ibTags parses a source file and returns field name -> tag literal content for every struct field ("\x00" = no literal).
// ibSourceGrouped: the same structs inside one grouped declaration  type ( S0 struct{...}; S1 struct{...} )
func ibSourceGrouped(structs [][]ibField) string {
	src := ibSource("grouped", structs)
	var b strings.Builder
	b.WriteString("// grouped\npackage p\n\ntype (\n")
	for si, fs := range structs {
		fmt.Fprintf(&b, "\tS%d struct {\n", si)
		one := ibSource("", [][]ibField{fs})
		body := one[strings.Index(one, "struct {\n")+len("struct {\n"):]
		body = body[:strings.Index(body, "\n}\n")+1]
		for _, l := range strings.Split(strings.TrimRight(body, "\n"), "\n") {
			b.WriteString("\t" + l + "\n")
		}
		b.WriteString("\t}\n")
	}
	b.WriteString(")\n")
	_ = src
	return b.String()
}

// ibTagSpans: byte spans [start, end) of the tag literals, same keys as ibTags
var ibTagSpans map[string][2]int

func ibTags(src []byte) (map[string]string, error) {
	spans := map[string][2]int{}
	defer func() { ibTagSpans = spans }()
	fs := token.NewFileSet()
	f, err := parser.ParseFile(fs, "x.go", src, parser.ParseComments)
	if err != nil {
		return nil, err
	}
	out := map[string]string{}
	ast.Inspect(f, func(n ast.Node) bool {
		ts, ok := n.(*ast.TypeSpec)
		if !ok {
			return true
		}
		st, ok := ts.Type.(*ast.StructType)
		if !ok {
			return true
		}
		for _, fl := range st.Fields.List {
			if id, ok := fl.Type.(*ast.Ident); ok && len(fl.Names) == 0 { // embedded field
				if fl.Tag == nil {
					out[ts.Name.Name+"."+id.Name] = "\x00"
				} else {
					out[ts.Name.Name+"."+id.Name] = strings.Trim(fl.Tag.Value, "`")
					spans[ts.Name.Name+"."+id.Name] = [2]int{fs.Position(fl.Tag.Pos()).Offset, fs.Position(fl.Tag.End()).Offset}
				}
			}
			for _, nm := range fl.Names {
				if fl.Tag == nil {
					out[ts.Name.Name+"."+nm.Name] = "\x00"
				} else {
					out[ts.Name.Name+"."+nm.Name] = strings.Trim(fl.Tag.Value, "`")
					spans[ts.Name.Name+"."+nm.Name] = [2]int{fs.Position(fl.Tag.Pos()).Offset, fs.Position(fl.Tag.End()).Offset}
				}
			}
		}
		return true
	})
	return out, nil
}

type ibKV struct{ k, v string }

// ibItems: conventional key:"value" items of a tag, in order (values without escapes)
func ibItems(tag string) []ibKV {
	var out []ibKV
	rest := tag
	for {
		rest = strings.TrimLeft(rest, " ")
		i := strings.Index(rest, ":\"")
		if i <= 0 {
			return out
		}
		j := strings.Index(rest[i+2:], "\"")
		if j < 0 {
			return out
		}
		out = append(out, ibKV{rest[:i], rest[i+2 : i+2+j]})
		rest = rest[i+2+j+1:]
	}
}

// ibMerge: the documented merge — injected keys take the injected value in place; untouched keys keep value and position;
// new keys are appended in comment order; no duplicates.
func ibMerge(cur, inj []ibKV) []ibKV {
	var out []ibKV
	used := map[int]bool{}
	for _, c := range cur {
		rep := -1
		for j, x := range inj {
			if !used[j] && x.k == c.k {
				rep = j
				break
			}
		}
		if rep >= 0 {
			used[rep] = true
			out = append(out, inj[rep])
		} else {
			out = append(out, c)
		}
	}
	for j, x := range inj {
		if !used[j] {
			out = append(out, x)
		}
	}
	return out
}

func ibFormat(items []ibKV) string {
	var p []string
	for _, x := range items {
		p = append(p, x.k+":\""+x.v+"\"")
	}
	return strings.Join(p, " ")
}

func ibInjectComment(comment string) (string, bool) {
	i := strings.Index(comment, "@tag ")
	if i < 0 {
		return "", false
	}
	return comment[i+len("@tag "):], true
}

// ibCheckFile: after processing, every annotated field with a tag literal carries the merged tag, every other field's tag is
// untouched, and every byte outside the annotated fields' tag literals is unchanged.
func ibCheckFile(rep *ibReporter, name string, before, after []byte, structs [][]ibField) {
	bt, err1 := ibTags(before)
	bspans := ibTagSpans
	at, err2 := ibTags(after)
	aspans := ibTagSpans
	blank := func(src []byte, spans map[string][2]int, keys []string) string {
		out := append([]byte{}, src...)
		for _, k := range keys {
			if sp, ok := spans[k]; ok {
				for i := sp[0]; i < sp[1]; i++ {
					out[i] = 0
				}
			}
		}
		return strings.ReplaceAll(string(out), "\x00", "")
	}
	var blanked []string
	if err1 != nil || err2 != nil {
		rep.report(name, "file no longer parses after injection: %v / %v", err1, err2)
		return
	}
	if len(bt) != len(at) {
		rep.report(name, "declarations changed: %d fields before, %d after", len(bt), len(at))
	}
	for si, fs := range structs {
		for _, f := range fs {
			key := fmt.Sprintf("S%d.%s", si, f.name)
			inj, annotated := ibInjectComment(f.comment)
			if f.tag == "" {
				if at[key] != "\x00" {
					rep.report(name, "field %s has no tag literal and must be left untouched, got `%s`", key, at[key])
				}
				continue
			}
			want := f.tag
			if annotated && len(ibItems(inj)) > 0 {
				want = ibFormat(ibMerge(ibItems(f.tag), ibItems(inj)))
			}
			if at[key] != want {
				rep.report(name, "field %s: tag `%s` + comment %q gives `%s`, want `%s`", key, f.tag, f.comment, at[key], want)
			}
			if annotated {
				occ := map[string]int{}
				for _, x := range ibItems(inj) {
					occ[x.k]++
				}
				for _, x := range ibItems(inj) {
					if occ[x.k] > 1 {
						continue // a key repeated inside one comment: only the merged literal above is checked
					}
					if got := reflect.StructTag(at[key]).Get(x.k); got != x.v {
						rep.report(name, "field %s: key %s reads %q through reflect.StructTag, want %q", key, x.k, got, x.v)
					}
				}
				seen := map[string]int{}
				for _, x := range ibItems(at[key]) {
					seen[x.k]++
				}
				injKeys := map[string]int{}
				for _, x := range ibItems(inj) {
					injKeys[x.k]++
				}
				for k, c := range seen {
					if c > 1 && injKeys[k] <= 1 {
						rep.report(name, "field %s: key %s duplicated in `%s`", key, k, at[key])
					}
				}
			}
			// this field's tag literal is blanked on both sides for the outside-bytes comparison
			blanked = append(blanked, key)
		}
	}
	if blank(before, bspans, blanked) != blank(after, aspans, blanked) {
		rep.report(name, "bytes outside the annotated fields' tag literals changed")
	}
}

func ibLastValue(items []ibKV, k string) string {
	v := ""
	for _, x := range items {
		if x.k == k {
			v = x.v
		}
	}
	return v
}

var ibFieldChoices = []ibField{
	{"A", `json:"a"`, "", ""},
	{"B", `json:"b" valid:"old"`, `@tag valid:"required,to=1~3"`, ""},
	{"C", `protobuf:"bytes,1,opt,name=c,proto3" json:"c,omitempty"`, `姓名 @tag valid:"required" gorm:"column:c_name"`, ""},
	{"D", "", `@tag valid:"x"`, ""},
	{"E", `json:"e"`, `merely mentions @tag`, ""},
	{"F", `gorm:"column:id" json:"f"`, `@tag gorm:"primaryKey;column:order_id"`, ""},
	{"G", `layout:"15:04" json:"g"`, `@tag json:"g2" layout:"15h04" new:"n"`, ""},
	{"H", `protobuf:"bytes,3,opt,name=sep,def=\\n" json:"h"`, `@tag valid:"required"`, ""},
	{"I", `json:"i"`, `plain comment`, ""},
	{"J", `valid:"a"`, `@tag valid:"required" other:"to=1~3"`, ""},
	{"K", "", "", ""},
	{"L", `valid:"a" json:"l"`, `@tag valid:"required" valid:"to=1~3"`, ""},
	{"M", `json:"m"`, `@tag valid:"required" valid:"to=1~3"`, ""},
	// an inline struct whose inner field carries the identical tag literal; an embedded field; a multi-line func type
	{"N", `json:"-"`, `@tag valid:"required"`, "struct {\n\t\tIn string `json:\"-\"`\n\t}"},
	{"O", `json:"o"`, `@tag valid:"required"`, "-"},
	{"P", `json:"p"`, `@tag valid:"exist"`, "[]*struct{ X, Y int }"},
	// '$' in an existing and in an injected value (regexp replacement templates expand $name)
	{"Q", `json:"a$$b" re:"^x$1$"`, `@tag valid:"re='^x+$'" cost:"$5"`, ""},
	// the marker inside a longer word is not an annotation; a hand-aligned tag must keep its spacing
	{"R", `json:"uid"`, `mail ops@tagteam.example json:"user_id"`, ""},
	{"T", `json:"t"     db:"t"`, `@tagged json:"x"`, ""},
}

func ibStructs(sel []int) [][]ibField {
	var out [][]ibField
	var cur []ibField
	for i, k := range sel {
		f := ibFieldChoices[k]
		f.name = fmt.Sprintf("%s%d", f.name, i)
		cur = append(cur, f)
		if len(cur) == 2 {
			out = append(out, cur)
			cur = nil
		}
	}
	if len(cur) > 0 {
		out = append(out, cur)
	}
	return out
}

func ibEnumerate(maxFields int, fn func(sel []int)) int {
	n := 0
	var rec func(cur []int)
	rec = func(cur []int) {
		if len(cur) > 0 {
			fn(cur)
			n++
		}
		if len(cur) == maxFields {
			return
		}
		for k := range ibFieldChoices {
			rec(append(cur[:len(cur):len(cur)], k))
		}
	}
	rec(nil)
	return n
}

func TestVerifBoundedC06(t *testing.T) {
	ibSkip(t)
	rep := &ibReporter{}
	dir := t.TempDir()
	maxFields := 2
	if os.Getenv("VERIF_TIER") == "thorough" {
		maxFields = 3
	}
	// several files processed in one process (offsets of later files must not depend on earlier ones)
	n := ibEnumerate(maxFields, func(sel []int) {
		structs := ibStructs(sel)
		src := []byte(ibSource("generated", structs))
		p := filepath.Join(dir, fmt.Sprintf("f%v.pb.go", sel))
		os.WriteFile(p, src, 0644)
		handleFile(p)
		after, _ := os.ReadFile(p)
		ibCheckFile(rep, "C06.merge", src, after, structs)
		os.Remove(p)
		if len(sel) == 2 || len(sel) == 4 { // the same fields as structs of one grouped type declaration
			gs := structs
			if len(sel) == 2 {
				gs = [][]ibField{{structs[0][0]}, {structs[0][1]}}
			}
			gsrc := []byte(ibSourceGrouped(gs))
			os.WriteFile(p, gsrc, 0644)
			handleFile(p)
			gafter, _ := os.ReadFile(p)
			ibCheckFile(rep, "C06.merge", gsrc, gafter, gs)
			os.Remove(p)
		}
	})
	fmt.Printf("BOUNDED name=C06.merge cases=%d bound=every file of 1..%d fields drawn from 19 field shapes (with/without tag literal, with/without @tag comment, comments merely mentioning @tag, values containing ':' ';' and backslashes, several keys, non-ASCII text, raw strings and doc comments containing @tag), two fields per struct, all processed in one process through handleFile: merged tags, untouched fields, bytes outside tag literals, still parses\n", n, maxFields)
	if rep.viol > 0 {
		t.Fatalf("%d violations", rep.viol)
	}
}

func TestVerifBoundedC07(t *testing.T) {
	ibSkip(t)
	rep := &ibReporter{}
	dir := t.TempDir()
	n := 0
	maxFields := 2
	if os.Getenv("VERIF_TIER") == "thorough" {
		maxFields = 3
	}
	ibEnumerate(maxFields, func(sel []int) {
		n++
		structs := ibStructs(sel)
		p := filepath.Join(dir, "x.pb.go")
		src := []byte(ibSource("generated", structs))
		os.WriteFile(p, src, 0644)
		annotated := false
		for _, fs := range structs {
			for _, f := range fs {
				if _, ok := ibInjectComment(f.comment); ok && f.tag != "" {
					annotated = true
				}
			}
		}
		handleFile(p)
		once, _ := os.ReadFile(p)
		if !annotated && !bytes.Equal(once, src) {
			rep.report("C07.noannotation", "file %v without applicable @tag annotations changed", sel)
		}
		// repeated runs, mixing -f / -d / -p style invocations
		handleDir(dir)
		twice, _ := os.ReadFile(p)
		handlePatternFiles(filepath.Join(dir, "*.pb.go"))
		handleFile(p)
		four, _ := os.ReadFile(p)
		if !bytes.Equal(once, twice) || !bytes.Equal(once, four) {
			rep.report("C07.idempotent", "file %v changed on a repeated run:\n--- after run 1:\n%s\n--- after run 2:\n%s", sel, ibDiffLine(once, twice, four), "")
		}
	})
	fmt.Printf("BOUNDED name=C07.idempotent cases=%d bound=every file of 1..%d fields from 19 field shapes: run 1 (-f), run 2 (-d), runs 3-4 (-p, -f) leave the bytes of run 1; files without applicable annotations are unchanged by run 1\n", n, maxFields)
	if rep.viol > 0 {
		t.Fatalf("%d violations", rep.viol)
	}
}

func ibDiffLine(a, b, c []byte) string {
	la, lb := strings.Split(string(a), "\n"), strings.Split(string(b), "\n")
	if bytes.Equal(a, b) {
		lb = strings.Split(string(c), "\n")
	}
	for i := range la {
		if i >= len(lb) || la[i] != lb[i] {
			other := ""
			if i < len(lb) {
				other = lb[i]
			}
			return fmt.Sprintf("%q  ->  %q", la[i], other)
		}
	}
	return "(length differs)"
}

func TestVerifBoundedC19(t *testing.T) {
	ibSkip(t)
	rep := &ibReporter{}
	n := 0
	good := [][]ibField{{ibFieldChoices[1], ibFieldChoices[2]}}
	good[0][0].name, good[0][1].name = "B0", "C1"
	plain := [][]ibField{{ibFieldChoices[0]}}
	plain[0][0].name = "A0"
	odd := [][]ibField{{ibFieldChoices[3], ibFieldChoices[4], ibFieldChoices[10]}}
	odd[0][0].name, odd[0][1].name, odd[0][2].name = "D0", "E1", "K2"
	oddSrc := ibSource("odd", odd) + "\ntype (\n\tG1 struct {\n\t\tX string `json:\"x\"` // @tag valid:\"required\"\n\t}\n\tG2 int\n\tG4 struct {\n\t\tZ string `json:\"z\"` // @tag valid:\"required\"\n\t}\n)\n\ntype G3 struct {\n\tEmb `json:\"e\"` // @tag valid:\"required\"\n\tTitle string `` // @tag todo: nothing here\n}\n\nfunc local() {\n\ttype L struct {\n\t\tY string `json:\"y\"` // see @tag\n\t}\n\t_ = L{}\n}\n// trailing @tag"
	files := map[string][]byte{
		"a_broken.pb.go":  []byte("package p\n\ntype S struct {\n\tX string `json:\"x\"` // @tag valid:\"required\"\n"),
		"b_plain.pb.go":   []byte(ibSource("plain", plain)),
		"c_notes.txt":     []byte("type S struct { X string `json:\"x\"` // @tag valid:\"required\"\n}"),
		"d_odd.pb.go":     []byte(oddSrc),
		"e_endtag.pb.go":  []byte("package p\n\ntype T struct {\n\tA string `json:\"a\"` // how to annotate: see @tag\n\tB string `json:\"b\"` // @tag\n\tC string `json:\"c\"` // @tag \n}\n"),
		"f_empty.pb.go":   []byte(""),
		"z_user.pb.go":    []byte(ibSource("good", good)),
		"zz_second.pb.go": []byte(ibSource("good", good)),
	}
	orders := [][]string{nil}
	for mode := 0; mode < 3; mode++ {
		n++
		dir := t.TempDir()
		os.Mkdir(filepath.Join(dir, "sub"), 0755)
		os.WriteFile(filepath.Join(dir, "sub", "inner.pb.go"), files["z_user.pb.go"], 0644)
		for name, src := range files {
			os.WriteFile(filepath.Join(dir, name), src, 0644)
		}
		func() {
			defer func() {
				if r := recover(); r != nil {
					rep.report("C19.crash", "mode %d: the tool panicked: %v", mode, r)
				}
			}()
			switch mode {
			case 0:
				handleDir(dir)
			case 1:
				handlePatternFiles(filepath.Join(dir, "*"))
			default:
				for name := range files {
					func() {
						defer func() {
							if r := recover(); r != nil {
								rep.report("C19.crash", "handleFile(%s) panicked: %v", name, r)
							}
						}()
						handleFile(filepath.Join(dir, name))
					}()
				}
			}
		}()
		for name, src := range files {
			after, _ := os.ReadFile(filepath.Join(dir, name))
			switch name {
			case "a_broken.pb.go", "c_notes.txt", "f_empty.pb.go":
				if !bytes.Equal(after, src) {
					rep.report("C19.untouched", "mode %d: %s (not a .go file or does not parse) was modified", mode, name)
				}
			case "z_user.pb.go", "zz_second.pb.go":
				ibCheckFile(rep, "C19.later."+name, src, after, good)
			case "b_plain.pb.go", "e_endtag.pb.go":
				if !bytes.Equal(after, src) {
					rep.report("C19.noannotation", "mode %d: %s has no applicable annotation and was modified", mode, name)
				}
			case "d_odd.pb.go":
				at, err := ibTags(after)
				if err != nil || at["G1.X"] != `json:"x" valid:"required"` || at["S0.D0"] != "\x00" || at["L.Y"] != `json:"y"` ||
				at["G3.Emb"] != `json:"e" valid:"required"` || at["G3.Title"] != "" || at["G4.Z"] != `json:"z" valid:"required"` {
					rep.report("C19.odd", "mode %d: grouped/local declarations, field without tag literal: %v %v", mode, at, err)
				}
			}
		}
		inner, _ := os.ReadFile(filepath.Join(dir, "sub", "inner.pb.go"))
		if mode == 0 && !bytes.Equal(inner, files["z_user.pb.go"]) {
			rep.report("C19.subdir", "directory mode processed a file in a sub-directory")
		}
	}
	_ = orders
	fmt.Printf("BOUNDED name=C19.mixed cases=%d bound=a directory mixing a broken .go file, an unannotated file, a non-Go file, grouped and local type declarations, fields without tag literal, comments ending in @tag, an empty file, a sub-directory and two annotated files sorted last, processed by -d, -p and per-file -f: nothing unprocessable is modified, nothing panics, the remaining files are injected correctly\n", n)
	if rep.viol > 0 {
		t.Fatalf("%d violations", rep.viol)
	}
}
