package valid

// Bounded stand-in for C14 (run through go test -overlay against the real package; see DESIGN.md §4.3).
// Checks the REAL functions against the executable form of the contract clauses, exhaustively up to the bound.

import (
	"fmt"
	"os"
	"strings"
	"testing"
)

func c14Enumerate(alphabet []string, maxLen int, fn func(s string)) int {
	n := 0
	var rec func(prefix string, depth int)
	rec = func(prefix string, depth int) {
		fn(prefix)
		n++
		if depth == maxLen {
			return
		}
		for _, a := range alphabet {
			rec(prefix+a, depth+1)
		}
	}
	rec("", 0)
	return n
}

// reference splitter: maximal runs between separators at even quote depth
func c14RefSplit(s string, sep byte) []string {
	var out []string
	cur := []byte{}
	inQ := false
	for i := 0; i < len(s); i++ {
		c := s[i]
		if c == '\'' {
			inQ = !inQ
			cur = append(cur, c)
			continue
		}
		if c == sep && !inQ {
			out = append(out, string(cur))
			cur = cur[:0]
			continue
		}
		cur = append(cur, c)
	}
	out = append(out, string(cur))
	return out
}

func c14Wrap(k, v string) string {
	switch k {
	case "in", "include":
		return "(" + v + ")"
	case "re":
		if len(v) > 1 && (v[0] == '\'' || v[1] == '\'') {
			return v
		}
		return "'" + v + "'"
	}
	return v
}

func c14HasZh(s string) bool {
	for _, r := range s {
		if r >= 0x4e00 && r <= 0x9fa5 {
			return true
		}
	}
	return false
}

func TestVerifBoundedC14(t *testing.T) {
	if os.Getenv("VERIF_BOUNDED") == "" {
		t.Skip("bounded stand-in: run by govc")
	}
	thorough := os.Getenv("VERIF_TIER") == "thorough"
	viol := 0
	report := func(name, f string, a ...interface{}) {
		viol++
		if viol <= 5 {
			fmt.Printf("BOUNDED-VIOLATION name=%s %s\n", name, fmt.Sprintf(f, a...))
		}
	}

	// 1. splitter: no-loss law and piece law
	maxLen := 8
	if thorough {
		maxLen = 10
	}
	alpha := []string{"a", ",", "'", "|", "=", "中", "\""}
	splitCase := func(s string) {
		got := ValidNamesSplit(s)
		if s == "" {
			if got != nil {
				report("split", "ValidNamesSplit(%q) = %q, want nil", s, got)
			}
			return
		}
		ref := c14RefSplit(s, ',')
		ok := len(got) == len(ref) || (len(got) == len(ref)-1 && ref[len(ref)-1] == "")
		if ok {
			for i := range got {
				if got[i] != ref[i] {
					ok = false
				}
			}
		}
		if !ok {
			report("split", "ValidNamesSplit(%q) = %q, want the maximal runs between commas at even quote depth %q (a final empty run may be dropped)", s, got, ref)
		}
		j := strings.Join(got, ",")
		if j != s && j+"," != s {
			report("split.noloss", "pieces of %q joined by commas give %q", s, j)
		}
	}
	cases := c14Enumerate(alpha, maxLen, splitCase)
	// a second, narrower alphabet with the backslash (a quote is closed by the next quote whatever precedes it), two symbols longer
	cases += c14Enumerate([]string{"a", ",", "'", "\\"}, maxLen+2, splitCase)
	fmt.Printf("BOUNDED name=split cases=%d bound=all strings over {a , ' | = 中 \"} up to length %d and over {a , ' \\} up to two more: ValidNamesSplit against the reference splitter (maximal runs at even quote depth) and the no-loss law\n", cases, maxLen)

	// 2. round trip of one rule through GenValidKV and ParseValidNameKV
	keys := []string{"to", "in", "include", "re", "required", "x"}
	valAlpha := []string{"a", "1", "~", "(", "'", "/", "=", "中"}
	msgAlpha := []string{"a", "中", "|", "=", " ", ",", "\""}
	vl, ml := 3, 3
	if thorough {
		vl, ml = 4, 4
	}
	var vals, msgs []string
	c14Enumerate(valAlpha, vl, func(s string) { vals = append(vals, s) })
	c14Enumerate(msgAlpha, ml, func(s string) { msgs = append(msgs, s) })
	n := 0
	for _, k := range keys {
		for _, v := range vals {
			if v != "" && v[0] == '=' {
				continue // documented: a value may bring its own '='; then it is not wrapped again — outside the round-trip law
			}
			if strings.Contains(c14Wrap(k, v), "|") {
				continue
			}
			for _, m := range msgs {
				n++
				var text string
				if m == "" {
					if v == "" {
						text = GenValidKV(k)
					} else {
						text = GenValidKV(k, v)
					}
				} else {
					text = GenValidKV(k, v, m)
				}
				gk, gv, gm := ParseValidNameKV(text)
				wv := ""
				if v != "" {
					wv = c14Wrap(k, v)
				}
				wm := ""
				if m != "" {
					if c14HasZh(m) {
						wm = ExplainZh + " " + m
					} else {
						wm = ExplainEn + " " + m
					}
				}
				if gk != k || gv != wv || gm != wm {
					report("roundtrip", "ParseValidNameKV(GenValidKV(%q, %q, %q) = %q) = (%q, %q, %q), want (%q, %q, %q)", k, v, m, text, gk, gv, gm, k, wv, wm)
				}
			}
		}
	}
	fmt.Printf("BOUNDED name=roundtrip cases=%d bound=6 keys x values over {a 1 ~ ( ' / = 中} up to length %d x messages over {a 中 | = space ,} up to length %d\n", n, vl, ml)

	// 3. a list of rules joined by commas is split back into the same rules (commas only inside quotes)
	n = 0
	rules := []string{"required", "to=1~3", "in=(a/b)", "re='a,b'", "phone|'x,y'", "to=1~3|中", "ints=','", "required|'a,b'", "le=5|size 5\" only", "re='\"'"}
	for i := range rules {
		for j := range rules {
			for k := range rules {
				n++
				list := []string{rules[i], rules[j], rules[k]}
				got := ValidNamesSplit(strings.Join(list, ","))
				if len(got) != 3 || got[0] != list[0] || got[1] != list[1] || got[2] != list[2] {
					report("rulelist", "ValidNamesSplit(%q) = %q, want %q", strings.Join(list, ","), got, list)
				}
			}
		}
	}
	fmt.Printf("BOUNDED name=rulelist cases=%d bound=all triples of 10 documented rule shapes (quoted commas, brackets, messages)\n", n)
	if viol > 0 {
		t.Fatalf("%d violations", viol)
	}
}
