package valid

// Bounded stand-in for C08 (the struct-type cache is transparent): the same seeded history of validation calls over more
// struct types than the cache holds, two tag names and per-call rule overrides is run under every cache implementation;
// every call's result must equal the result under a cache that forgets everything. Run through go test -overlay.

import (
	"fmt"
	"math/rand"
	"os"
	"reflect"
	"sort"
	"strconv"
	"strings"
	"sync"
	"testing"
)

type c08Miss struct{}

func (c08Miss) Load(key interface{}) (interface{}, bool) { return nil, false }
func (c08Miss) Store(key, value interface{})              {}

type c08SyncMap struct{ m sync.Map }

func (c *c08SyncMap) Load(key interface{}) (interface{}, bool) { return c.m.Load(key) }
func (c *c08SyncMap) Store(key, value interface{})              { c.m.Store(key, value) }

func c08Err(err error) string {
	if err == nil {
		return "<nil>"
	}
	cl := strings.Split(err.Error(), ErrEndFlag)
	sort.Strings(cl)
	return strings.Join(cl, ErrEndFlag)
}

func TestVerifBoundedC08(t *testing.T) {
	if os.Getenv("VERIF_BOUNDED") == "" {
		t.Skip("bounded stand-in: run by govc")
	}
	seed, _ := strconv.Atoi(os.Getenv("VERIF_SEED"))
	steps := 1500
	if os.Getenv("VERIF_TIER") == "thorough" {
		steps = 20000
	}
	// 12 struct types; every type carries rules under two tag names that disagree
	var types []reflect.Type
	for i := 0; i < 12; i++ {
		types = append(types, reflect.StructOf([]reflect.StructField{
			{Name: "Name", Type: reflect.TypeOf(""), Tag: reflect.StructTag(fmt.Sprintf(`valid:"required,to=%d~%d" alt:"to=1~2"`, 1+i%3, 3+i%3))},
			{Name: "Age", Type: reflect.TypeOf(0), Tag: reflect.StructTag(fmt.Sprintf(`valid:"le=%d" alt:"required,ge=%d"`, 5+i, 50+i))},
			{Name: fmt.Sprintf("Only%d", i), Type: reflect.TypeOf(""), Tag: `alt:"required"`},
		}))
	}
	type call struct {
		ty   int
		name string
		age  int
		mode int // 0 Struct, 1 alt tag, 2 Struct with rule override, 3 alt tag with rule override
	}
	rng := rand.New(rand.NewSource(int64(seed) + 8))
	var hist []call
	for i := 0; i < steps; i++ {
		hist = append(hist, call{rng.Intn(len(types)), []string{"", "a", "abc", "abcdefg"}[rng.Intn(4)], []int{0, 3, 9, 60, 100}[rng.Intn(5)], rng.Intn(4)})
	}
	run := func(c call) string {
		v := reflect.New(types[c.ty])
		v.Elem().Field(0).SetString(c.name)
		v.Elem().Field(1).SetInt(int64(c.age))
		switch c.mode {
		case 0:
			return c08Err(Struct(v.Interface()))
		case 1:
			return c08Err(ValidateStruct(v.Interface(), "alt"))
		case 2:
			return c08Err(Struct(v.Interface(), NewRule().Set("Age", "ge=7")))
		}
		return c08Err(ValidStructForRule(NewRule().Set("Name", "to=5~9"), v.Interface(), "alt"))
	}
	saved := cacheStructType
	defer func() { cacheStructType = saved }()
	cacheStructType = c08Miss{}
	ref := make([]string, len(hist))
	for i, c := range hist {
		ref[i] = run(c)
	}
	viol, n := 0, 0
	caches := map[string]func() CacheEr{
		"default LRU":  func() CacheEr { return NewLRU() },
		"LRU(0)":       func() CacheEr { return NewLRU(0) },
		"LRU(1)":       func() CacheEr { return NewLRU(1) },
		"LRU(2)":       func() CacheEr { return NewLRU(2) },
		"LRU(3)":       func() CacheEr { return NewLRU(3) },
		"LRU(8)":       func() CacheEr { return NewLRU(8) },
		"sync.Map":     func() CacheEr { return &c08SyncMap{} },
		"always-miss2": func() CacheEr { return c08Miss{} },
	}
	var names []string
	for k := range caches {
		names = append(names, k)
	}
	sort.Strings(names)
	for _, name := range names {
		func() {
			defer func() {
				if r := recover(); r != nil {
					viol++
					fmt.Printf("BOUNDED-VIOLATION name=C08.caches under %s a validation call panicked: %v\n", name, r)
				}
			}()
			cacheStructType = caches[name]()
			for i, c := range hist {
				n++
				if got := run(c); got != ref[i] {
					viol++
					if viol <= 5 {
						fmt.Printf("BOUNDED-VIOLATION name=C08.caches under %s step %d (type %d, mode %d, Name=%q Age=%d) returned %q; with a cache that forgets everything it returns %q\n", name, i, c.ty, c.mode, c.name, c.age, got, ref[i])
					}
				}
			}
		}()
	}
	fmt.Printf("BOUNDED name=C08.caches cases=%d bound=one seeded history of %d calls (12 struct types, 2 tag names with disagreeing rules, with/without per-call rule override) under 8 cache implementations (default LRU, LRU of capacity 0,1,2,3,8, sync.Map, always-miss): every result equals the result under a cache that forgets everything\n", n, steps)
	if viol > 0 {
		t.Fatalf("%d violations", viol)
	}
}
