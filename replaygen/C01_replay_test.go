package valid

// Replay / witness-search harness for C01 (injected with `go test -overlay`, never committed to /repo).
// Oracle = the property sentence: measure (rune count / numeric value / slice length) against the
// integer bounds; to/ge/le inclusive, oto/gt/lt exclusive, eq/noeq equality.

import (
	"encoding/json"
	"fmt"
	"math"
	"math/big"
	"math/rand"
	"os"
	"strconv"
	"strings"
	"testing"
	"unicode/utf8"
)

type c01Case struct {
	Kind string `json:"kind"` // string,int8..int64,int,uint8..uint64,uint,float32,float64,slice
	Val  string `json:"val"`  // decimal (numbers), literal (string), length (slice)
	Rule string `json:"rule"` // to,ge,le,oto,gt,lt,eq,noeq
	Lo   int64  `json:"lo"`
	Hi   int64  `json:"hi"`
}

func c01Value(k, val string) (v interface{}, measure *big.Float, ok bool) {
	bi, isInt := new(big.Int).SetString(val, 10)
	switch k {
	case "string":
		return val, new(big.Float).SetInt64(int64(utf8.RuneCountInString(val))), val != ""
	case "slice":
		n, err := strconv.Atoi(val)
		if err != nil || n < 0 || n > 1<<16 {
			return nil, nil, false
		}
		s := make([]int, n)
		for i := range s {
			s[i] = i + 1
		}
		return s, new(big.Float).SetInt64(int64(n)), n > 0
	case "float32", "float64":
		f, err := strconv.ParseFloat(val, 64)
		if err != nil || math.IsNaN(f) || math.IsInf(f, 0) {
			return nil, nil, false
		}
		if k == "float32" {
			f32 := float32(f)
			return f32, new(big.Float).SetFloat64(float64(f32)), f32 != 0
		}
		return f, new(big.Float).SetFloat64(f), f != 0
	}
	if !isInt {
		return nil, nil, false
	}
	m := new(big.Float).SetInt(bi)
	fits := func(bits uint, signed bool) bool {
		if signed {
			lim := new(big.Int).Lsh(big.NewInt(1), bits-1)
			return bi.Cmp(new(big.Int).Neg(lim)) >= 0 && bi.Cmp(lim) < 0
		}
		return bi.Sign() >= 0 && bi.Cmp(new(big.Int).Lsh(big.NewInt(1), bits)) < 0
	}
	nz := bi.Sign() != 0
	switch k {
	case "int8":
		return int8(bi.Int64()), m, fits(8, true) && nz
	case "int16":
		return int16(bi.Int64()), m, fits(16, true) && nz
	case "int32":
		return int32(bi.Int64()), m, fits(32, true) && nz
	case "int64":
		return bi.Int64(), m, fits(64, true) && nz
	case "int":
		return int(bi.Int64()), m, fits(64, true) && nz
	case "uint8":
		return uint8(bi.Uint64()), m, fits(8, false) && nz
	case "uint16":
		return uint16(bi.Uint64()), m, fits(16, false) && nz
	case "uint32":
		return uint32(bi.Uint64()), m, fits(32, false) && nz
	case "uint64":
		return bi.Uint64(), m, fits(64, false) && nz
	case "uint":
		return uint(bi.Uint64()), m, fits(64, false) && nz
	}
	return nil, nil, false
}

func c01Check(c c01Case) (string, bool) {
	v, m, ok := c01Value(c.Kind, c.Val)
	if !ok {
		return "", false
	}
	lo, hi := new(big.Float).SetInt64(c.Lo), new(big.Float).SetInt64(c.Hi)
	var rule string
	var want bool
	switch c.Rule {
	case "to":
		rule, want = fmt.Sprintf("to=%d~%d", c.Lo, c.Hi), m.Cmp(lo) < 0 || m.Cmp(hi) > 0
	case "oto":
		rule, want = fmt.Sprintf("oto=%d~%d", c.Lo, c.Hi), m.Cmp(lo) <= 0 || m.Cmp(hi) >= 0
	case "ge":
		rule, want = fmt.Sprintf("ge=%d", c.Lo), m.Cmp(lo) < 0
	case "gt":
		rule, want = fmt.Sprintf("gt=%d", c.Lo), m.Cmp(lo) <= 0
	case "le":
		rule, want = fmt.Sprintf("le=%d", c.Hi), m.Cmp(hi) > 0
	case "lt":
		rule, want = fmt.Sprintf("lt=%d", c.Hi), m.Cmp(hi) >= 0
	case "eq":
		rule, want = fmt.Sprintf("eq=%d", c.Lo), m.Cmp(lo) != 0
	case "noeq":
		rule, want = fmt.Sprintf("noeq=%d", c.Lo), m.Cmp(lo) == 0
	default:
		return "", false
	}
	got := func() (g bool) {
		defer func() {
			if r := recover(); r != nil {
				g = !want // a panic is a disagreement too
			}
		}()
		return Var(v, rule) != nil
	}()
	if got != want {
		return fmt.Sprintf("Var(%T(%v), %q): violated=%v, property says violated=%v", v, trunc(fmt.Sprint(v)), rule, got, want), true
	}
	return "", false
}

func trunc(s string) string {
	if len(s) > 80 {
		return s[:80] + "..."
	}
	return s
}

func TestVerifReplayC01(t *testing.T) {
	if p := os.Getenv("VERIF_CASES"); p != "" {
		data, _ := os.ReadFile(p)
		var cases []c01Case
		json.Unmarshal(data, &cases)
		for _, c := range cases {
			if msg, bad := c01Check(c); bad {
				fmt.Println("REPLAY-CONFIRMED " + msg)
			}
		}
	}
	if s := os.Getenv("VERIF_SEARCH"); s != "" {
		parts := strings.Split(s, ":")
		seed, _ := strconv.ParseInt(parts[0], 10, 64)
		n, _ := strconv.Atoi(parts[1])
		rng := rand.New(rand.NewSource(seed))
		kinds := []string{"string", "int8", "int16", "int32", "int64", "int", "uint8", "uint16", "uint32", "uint64", "uint", "float32", "float64", "slice"}
		rules := []string{"to", "oto", "ge", "gt", "le", "lt", "eq", "noeq"}
		found := 0
		for i := 0; i < n && found < 3; i++ {
			k := kinds[rng.Intn(len(kinds))]
			lo := int64(rng.Intn(21) - 6)
			hi := lo + int64(rng.Intn(9)-2)
			b := []int64{lo, hi}[rng.Intn(2)] + int64(rng.Intn(3)-1)
			var val string
			switch k {
			case "string":
				if b < 1 {
					b = 1
				}
				if b > 40 {
					b = 40
				}
				val = strings.Repeat([]string{"a", "é", "中", "😀", "a😀"}[rng.Intn(5)], int(b))
			case "slice":
				if b < 1 {
					b = 1
				}
				val = strconv.FormatInt(b, 10)
			case "float32", "float64":
				val = strconv.FormatFloat(float64(b)+[]float64{0, 0.5, -0.5}[rng.Intn(3)], 'f', -1, 64)
			case "uint64", "uint":
				if rng.Intn(4) == 0 {
					val = "18446744073709551615"
				} else if rng.Intn(4) == 0 {
					val = "9223372036854775808"
				} else {
					val = strconv.FormatInt(b, 10)
				}
			default:
				val = strconv.FormatInt(b, 10)
			}
			c := c01Case{Kind: k, Val: val, Rule: rules[rng.Intn(len(rules))], Lo: lo, Hi: hi}
			if msg, bad := c01Check(c); bad {
				fmt.Println("REPLAY-CONFIRMED " + msg)
				found++
			}
		}
	}
}

// TestVerifBoundedC01: standing bounded stand-in. All 8-bit values x all bound pairs of a window x all eight rules are
// enumerated completely; the wider kinds, floats, strings (1- to 4-byte runes) and slices at bound-1, bound, bound+1.
func TestVerifBoundedC01(t *testing.T) {
	if os.Getenv("VERIF_BOUNDED") == "" {
		t.Skip("bounded stand-in: run by govc")
	}
	rules := []string{"to", "oto", "ge", "gt", "le", "lt", "eq", "noeq"}
	n, viol := 0, 0
	check := func(c c01Case) {
		n++
		if msg, bad := c01Check(c); bad {
			viol++
			if viol <= 5 {
				fmt.Println("BOUNDED-VIOLATION name=C01.window " + msg)
			}
		}
	}
	w := int64(4)
	if os.Getenv("VERIF_TIER") == "thorough" {
		w = 9
	}
	for lo := -w; lo <= w; lo++ {
		for d := int64(-2); d <= 3; d++ {
			hi := lo + d
			for _, r := range rules {
				for x := int64(-128); x <= 127; x++ {
					check(c01Case{"int8", strconv.FormatInt(x, 10), r, lo, hi})
				}
				for x := int64(0); x <= 255; x++ {
					check(c01Case{"uint8", strconv.FormatInt(x, 10), r, lo, hi})
				}
				for _, b := range []int64{lo, hi} {
					for dx := int64(-1); dx <= 1; dx++ {
						x := b + dx
						for _, k := range []string{"int16", "int32", "int64", "int", "uint16", "uint32", "uint64", "uint", "slice"} {
							check(c01Case{k, strconv.FormatInt(x, 10), r, lo, hi})
						}
						for _, fr := range []float64{0, 0.5, -0.5, 0.25} {
							check(c01Case{"float64", strconv.FormatFloat(float64(x)+fr, 'f', -1, 64), r, lo, hi})
							check(c01Case{"float32", strconv.FormatFloat(float64(x)+fr, 'f', -1, 64), r, lo, hi})
						}
						if x >= 1 && x <= 12 {
							for _, u := range []string{"a", "é", "中", "😀"} {
								check(c01Case{"string", strings.Repeat(u, int(x)), r, lo, hi})
							}
							check(c01Case{"string", strings.Repeat("a", int(x)-1) + "😀", r, lo, hi})
						}
					}
				}
				for _, big := range []string{"18446744073709551615", "9223372036854775808", "9223372036854775807"} {
					check(c01Case{"uint64", big, r, lo, hi})
					check(c01Case{"uint", big, r, lo, hi})
				}
				check(c01Case{"int64", "-9223372036854775808", r, lo, hi})
				check(c01Case{"int64", "9223372036854775807", r, lo, hi})
			}
		}
	}
	fmt.Printf("BOUNDED name=C01.window cases=%d bound=all int8 and uint8 values x bounds lo in [-%d,%d], hi-lo in [-2,3] x 8 rules, completely; int16..int64/uint16..uint64/float32/float64/slice/string (1- to 4-byte runes) at bound-1, bound, bound+1 (+-0.25, 0.5 for floats); 64-bit extremes; through Var against the property's oracle\n", n, w, w)
	if viol > 0 {
		t.Fatalf("%d violations", viol)
	}
}
