package valid

// Replay / witness-search harness for C01 (injected with `go test -overlay`, never committed to /repo).
// Oracle = the property sentence: measure (rune count / numeric value / slice length) against the
// integer bounds; to/ge/le inclusive, oto/gt/lt exclusive, eq/noeq equality.

import (
	"encoding/json"
	"fmt"
	"math"
	"math/big"
	"math/rand"
	"os"
	"strconv"
	"strings"
	"testing"
	"unicode/utf8"
)

type c01Case struct {
	Kind string `json:"kind"` // string,int8..int64,int,uint8..uint64,uint,float32,float64,slice
	Val  string `json:"val"`  // decimal (numbers), literal (string), length (slice)
	Rule string `json:"rule"` // to,ge,le,oto,gt,lt,eq,noeq
	Lo   int64  `json:"lo"`
	Hi   int64  `json:"hi"`
}

func c01Value(k, val string) (v interface{}, measure *big.Float, ok bool) {
	bi, isInt := new(big.Int).SetString(val, 10)
	switch k {
	case "string":
		return val, new(big.Float).SetInt64(int64(utf8.RuneCountInString(val))), val != ""
	case "slice":
		n, err := strconv.Atoi(val)
		if err != nil || n < 0 || n > 1<<16 {
			return nil, nil, false
		}
		s := make([]int, n)
		for i := range s {
			s[i] = i + 1
		}
		return s, new(big.Float).SetInt64(int64(n)), n > 0
	case "float32", "float64":
		f, err := strconv.ParseFloat(val, 64)
		if err != nil || math.IsNaN(f) || math.IsInf(f, 0) {
			return nil, nil, false
		}
		if k == "float32" {
			f32 := float32(f)
			return f32, new(big.Float).SetFloat64(float64(f32)), f32 != 0
		}
		return f, new(big.Float).SetFloat64(f), f != 0
	}
	if !isInt {
		return nil, nil, false
	}
	m := new(big.Float).SetInt(bi)
	fits := func(bits uint, signed bool) bool {
		if signed {
			lim := new(big.Int).Lsh(big.NewInt(1), bits-1)
			return bi.Cmp(new(big.Int).Neg(lim)) >= 0 && bi.Cmp(lim) < 0
		}
		return bi.Sign() >= 0 && bi.Cmp(new(big.Int).Lsh(big.NewInt(1), bits)) < 0
	}
	nz := bi.Sign() != 0
	switch k {
	case "int8":
		return int8(bi.Int64()), m, fits(8, true) && nz
	case "int16":
		return int16(bi.Int64()), m, fits(16, true) && nz
	case "int32":
		return int32(bi.Int64()), m, fits(32, true) && nz
	case "int64":
		return bi.Int64(), m, fits(64, true) && nz
	case "int":
		return int(bi.Int64()), m, fits(64, true) && nz
	case "uint8":
		return uint8(bi.Uint64()), m, fits(8, false) && nz
	case "uint16":
		return uint16(bi.Uint64()), m, fits(16, false) && nz
	case "uint32":
		return uint32(bi.Uint64()), m, fits(32, false) && nz
	case "uint64":
		return bi.Uint64(), m, fits(64, false) && nz
	case "uint":
		return uint(bi.Uint64()), m, fits(64, false) && nz
	}
	return nil, nil, false
}

func c01Check(c c01Case) (string, bool) {
	v, m, ok := c01Value(c.Kind, c.Val)
	if !ok {
		return "", false
	}
	lo, hi := new(big.Float).SetInt64(c.Lo), new(big.Float).SetInt64(c.Hi)
	var rule string
	var want bool
	switch c.Rule {
	case "to":
		rule, want = fmt.Sprintf("to=%d~%d", c.Lo, c.Hi), m.Cmp(lo) < 0 || m.Cmp(hi) > 0
	case "oto":
		rule, want = fmt.Sprintf("oto=%d~%d", c.Lo, c.Hi), m.Cmp(lo) <= 0 || m.Cmp(hi) >= 0
	case "ge":
		rule, want = fmt.Sprintf("ge=%d", c.Lo), m.Cmp(lo) < 0
	case "gt":
		rule, want = fmt.Sprintf("gt=%d", c.Lo), m.Cmp(lo) <= 0
	case "le":
		rule, want = fmt.Sprintf("le=%d", c.Hi), m.Cmp(hi) > 0
	case "lt":
		rule, want = fmt.Sprintf("lt=%d", c.Hi), m.Cmp(hi) >= 0
	case "eq":
		rule, want = fmt.Sprintf("eq=%d", c.Lo), m.Cmp(lo) != 0
	case "noeq":
		rule, want = fmt.Sprintf("noeq=%d", c.Lo), m.Cmp(lo) == 0
	default:
		return "", false
	}
	got := func() (g bool) {
		defer func() {
			if r := recover(); r != nil {
				g = !want // a panic is a disagreement too
			}
		}()
		return Var(v, rule) != nil
	}()
	if got != want {
		return fmt.Sprintf("Var(%T(%v), %q): violated=%v, property says violated=%v", v, trunc(fmt.Sprint(v)), rule, got, want), true
	}
	return "", false
}

func trunc(s string) string {
	if len(s) > 80 {
		return s[:80] + "..."
	}
	return s
}

func TestVerifReplayC01(t *testing.T) {
	if p := os.Getenv("VERIF_CASES"); p != "" {
		data, _ := os.ReadFile(p)
		var cases []c01Case
		json.Unmarshal(data, &cases)
		for _, c := range cases {
			if msg, bad := c01Check(c); bad {
				fmt.Println("REPLAY-CONFIRMED " + msg)
			}
		}
	}
	if s := os.Getenv("VERIF_SEARCH"); s != "" {
		parts := strings.Split(s, ":")
		seed, _ := strconv.ParseInt(parts[0], 10, 64)
		n, _ := strconv.Atoi(parts[1])
		rng := rand.New(rand.NewSource(seed))
		kinds := []string{"string", "int8", "int16", "int32", "int64", "int", "uint8", "uint16", "uint32", "uint64", "uint", "float32", "float64", "slice"}
		rules := []string{"to", "oto", "ge", "gt", "le", "lt", "eq", "noeq"}
		found := 0
		for i := 0; i < n && found < 3; i++ {
			k := kinds[rng.Intn(len(kinds))]
			lo := int64(rng.Intn(21) - 6)
			hi := lo + int64(rng.Intn(9)-2)
			b := []int64{lo, hi}[rng.Intn(2)] + int64(rng.Intn(3)-1)
			var val string
			switch k {
			case "string":
				if b < 1 {
					b = 1
				}
				if b > 40 {
					b = 40
				}
				val = strings.Repeat([]string{"a", "é", "中", "😀", "a😀"}[rng.Intn(5)], int(b))
			case "slice":
				if b < 1 {
					b = 1
				}
				val = strconv.FormatInt(b, 10)
			case "float32", "float64":
				val = strconv.FormatFloat(float64(b)+[]float64{0, 0.5, -0.5}[rng.Intn(3)], 'f', -1, 64)
			case "uint64", "uint":
				if rng.Intn(4) == 0 {
					val = "18446744073709551615"
				} else if rng.Intn(4) == 0 {
					val = "9223372036854775808"
				} else {
					val = strconv.FormatInt(b, 10)
				}
			default:
				val = strconv.FormatInt(b, 10)
			}
			c := c01Case{Kind: k, Val: val, Rule: rules[rng.Intn(len(rules))], Lo: lo, Hi: hi}
			if msg, bad := c01Check(c); bad {
				fmt.Println("REPLAY-CONFIRMED " + msg)
				found++
			}
		}
	}
}
