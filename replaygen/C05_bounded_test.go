package valid

// Bounded stand-in for C05: every format/content rule against an independent recogniser, on members of the documented
// language, all their single-character edits, and a seeded random sample over a mixed alphabet. The verdict CONTRACTS of
// phone/email/idcard/ip*/year*/date/int/float/json/prefix/suffix/file/dir and the regexp languages are proved (DESIGN §7);
// this stand-in is what decides in / include / ints / unique / datetime / re (content carried around loops), and it
// cross-checks the proved ones end to end. Run through go test -overlay against the real package.

import (
	"encoding/json"
	"fmt"
	"math/rand"
	"net"
	"os"
	"regexp"
	"strconv"
	"strings"
	"testing"
	"time"
)

type c05Rule struct {
	rule   string
	accept func(s string) bool
	seeds  []string
}

func c05Digits(s string) bool {
	if s == "" {
		return false
	}
	for i := 0; i < len(s); i++ {
		if s[i] < '0' || s[i] > '9' {
			return false
		}
	}
	return true
}

func c05Time(layout string) func(string) bool {
	return func(s string) bool { _, err := time.Parse(layout, s); return err == nil }
}

func c05Rules() []c05Rule {
	phone := regexp.MustCompile(`^1[3-9][0-9]{9}$`)
	email := regexp.MustCompile(`^[0-9A-Za-z_]+([-+.][0-9A-Za-z_]+)*@[0-9A-Za-z_]+([-.][0-9A-Za-z_]+)*\.[0-9A-Za-z_]+([-.][0-9A-Za-z_]+)*$`)
	idcard := regexp.MustCompile(`^([0-9]{15}|[0-9]{18}|[0-9]{17}[0-9Xx])$`)
	inList := func(opts ...string) func(string) bool {
		return func(s string) bool {
			for _, o := range opts {
				if s == o {
					return true
				}
			}
			return false
		}
	}
	includes := func(opts ...string) func(string) bool {
		return func(s string) bool {
			for _, o := range opts {
				if strings.Contains(s, o) {
					return true
				}
			}
			return false
		}
	}
	ints := func(sep string) func(string) bool {
		return func(s string) bool {
			for _, p := range strings.Split(s, sep) {
				if !c05Digits(p) {
					return false
				}
			}
			return true
		}
	}
	unique := func(s string) bool {
		seen := map[string]bool{}
		for _, p := range strings.Split(s, ",") {
			if seen[p] {
				return false
			}
			seen[p] = true
		}
		return true
	}
	tmp, _ := os.MkdirTemp("", "c05")
	f := tmp + "/f.txt"
	os.WriteFile(f, []byte("x"), 0644)
	return []c05Rule{
		{"phone", phone.MatchString, []string{"13800138000", "19912345678"}},
		{"email", email.MatchString, []string{"a@b.cn", "a.b-c+d@ex-am.ple.com", "_1@2.3"}},
		{"idcard", idcard.MatchString, []string{"110101199003071234", "11010119900307123X", "110101900307123"}},
		{"ip", func(s string) bool { return net.ParseIP(s) != nil }, []string{"1.2.3.4", "::1", "fe80::1", "255.255.255.255"}},
		{"ipv4", func(s string) bool { ip := net.ParseIP(s); return ip != nil && ip.To4() != nil }, []string{"1.2.3.4", "::1", "::ffff:1.2.3.4"}},
		{"ipv6", func(s string) bool { ip := net.ParseIP(s); return ip != nil && ip.To4() == nil }, []string{"1.2.3.4", "::1", "2001:db8::1"}},
		{"year", c05Time("2006"), []string{"1996", "0001", "2024"}},
		{"year2month", c05Time("2006-01"), []string{"1996-09", "2024-12"}},
		{"year2month=/", c05Time("2006/01"), []string{"1996/09", "1996-09"}},
		{"year2month=''", c05Time("200601"), []string{"199609", "1996-09"}},
		{"date", c05Time("2006-01-02"), []string{"1996-09-28", "2024-02-29", "2023-02-29"}},
		{"date='/'", c05Time("2006/01/02"), []string{"1996/09/28", "1996-09-28"}},
		{"date=''", c05Time("20060102"), []string{"19960928"}},
		{"datetime", c05Time("2006-01-02 15:04:05"), []string{"1996-09-28 23:00:00", "1996-09-28 24:00:00"}},
		{"datetime='/, ,/'", c05Time("2006/01/02 15/04/05"), []string{"1996/09/28 23/00/00"}},
		{"datetime='/,T'", c05Time("2006/01/02T15:04:05"), []string{"1996/09/28T23:00:00"}},
		{"datetime=',,'", c05Time("20060102150405"), []string{"19960928230000"}},
		{"datetime='.,_,-,x'", c05Time("2006.01.02_15-04-05"), []string{"1996.09.28_23-00-00"}},
		{"int", c05Digits, []string{"0", "123", "007"}},
		{"ints", ints(","), []string{"1,2,3", "1", "1,,2", "1,a"}},
		{"ints=-", ints("-"), []string{"1-2-3", "1,2"}},
		{"ints='|'", nil, nil}, // '|' starts the message: outside the documented shape
		{"float", func(s string) bool { i := strings.Index(s, "."); return i > 0 && c05Digits(s[:i]) && c05Digits(s[i+1:]) }, []string{"1.5", "0.0", "12.340"}},
		{"in=(a/b1/中)", inList("a", "b1", "中"), []string{"a", "b1", "中", "b"}},
		{"in=('a/b'/c)", inList("a/b", "c"), []string{"a/b", "c", "a"}},
		{"in=(1/2/3)", inList("1", "2", "3"), []string{"1", "3", "12"}},
		{"include=(ab/中)", includes("ab", "中"), []string{"xaby", "中文", "a b"}},
		{"unique", unique, []string{"a,b,c", "a,b,a", "1,01", ","}},
		{"json", func(s string) bool { return json.Valid([]byte(s)) }, []string{`{"a":1}`, `[1,2]`, `"s"`, `{a:1}`}},
		{"prefix=ab", func(s string) bool { return strings.HasPrefix(s, "ab") }, []string{"abc", "ab", "ba"}},
		{"suffix=中", func(s string) bool { return strings.HasSuffix(s, "中") }, []string{"a中", "中a"}},
		{"re='^[a-c]+\\d$'", regexp.MustCompile(`^[a-c]+\d$`).MatchString, []string{"abc1", "a9", "d1"}},
		{"re='a\\'b'", regexp.MustCompile(`a\'b`).MatchString, []string{"a'b", "ab"}},
		{"re='x|y'|must match", regexp.MustCompile(`x|y`).MatchString, []string{"x", "zyz", "z"}},
		{"file", func(s string) bool { st, err := os.Stat(s); return err == nil && !st.IsDir() }, []string{f, tmp, tmp + "/none"}},
		{"dir", func(s string) bool { st, err := os.Stat(s); return err == nil && st.IsDir() }, []string{f, tmp, tmp + "/none"}},
	}
}

func TestVerifBoundedC05(t *testing.T) {
	if os.Getenv("VERIF_BOUNDED") == "" {
		t.Skip("bounded stand-in: run by govc")
	}
	seed, _ := strconv.Atoi(os.Getenv("VERIF_SEED"))
	r := rand.New(rand.NewSource(int64(seed) + 5))
	viol := 0
	report := func(f string, a ...interface{}) {
		viol++
		if viol <= 5 {
			fmt.Printf("BOUNDED-VIOLATION name=C05.rules %s\n", fmt.Sprintf(f, a...))
		}
	}
	alpha := []string{"0", "1", "3", "9", "a", "b", "X", "x", "@", ".", "-", "+", "_", ":", "/", ",", " ", "'", "\"", "中", "\n", "(", ")", "|", "=", "{", "}", "T"}
	n := 0
	randoms := 300
	if os.Getenv("VERIF_TIER") == "thorough" {
		randoms = 5000
	}
	check := func(c c05Rule, s string) {
		if s == "" {
			return // empty values are not evaluated (C03)
		}
		n++
		err := Var(s, c.rule)
		if (err == nil) != c.accept(s) {
			report("Var(%q, %q) = %v, the independent recogniser says member=%v", s, c.rule, err, c.accept(s))
		}
	}
	for _, c := range c05Rules() {
		if c.accept == nil {
			continue
		}
		for _, s := range c.seeds {
			check(c, s)
			// every single-character deletion, substitution and insertion
			rs := []rune(s)
			for i := 0; i <= len(rs); i++ {
				if i < len(rs) {
					check(c, string(rs[:i])+string(rs[i+1:]))
				}
				for _, a := range alpha {
					check(c, string(rs[:i])+a+string(rs[i:]))
					if i < len(rs) {
						check(c, string(rs[:i])+a+string(rs[i+1:]))
					}
				}
			}
		}
		for k := 0; k < randoms; k++ {
			l := 1 + r.Intn(8)
			var b strings.Builder
			for j := 0; j < l; j++ {
				b.WriteString(alpha[r.Intn(len(alpha))])
			}
			check(c, b.String())
		}
	}
	// numeric and slice inputs: in / int / ints / float / unique compare numbers by their canonical decimal rendering
	type nc struct {
		v    interface{}
		rule string
		ok   bool
	}
	for _, c := range []nc{{1, "in=(1/2/3)", true}, {4, "in=(1/2/3)", false}, {int8(-2), "in=(-2/2)", true}, {uint16(20), "in=(2/20)", true}, {2.5, "in=(2.5/3)", true}, {float32(0.1), "in=(0.1/3)", true},
		{float32(2.5), "in=(2.5)", true}, {1e6, "in=(1000000)", true}, {3, "int", true}, {uint8(3), "int", true}, {2.5, "int", false}, {2.5, "float", true},
		{float32(1), "float", true}, {3, "float", false}, {[]int{1, 2}, "ints", true}, {[]string{"1", "a"}, "ints", false}, {[]string{"1", "22"}, "ints", true}, {[2]int{1, 2}, "ints", true},
		{[]float64{1.5}, "ints", false}, {3, "ints", true}, {[]int{1, 2, 1}, "unique", false}, {[]int{1, 2, 3}, "unique", true}, {[]string{"a", "b", "a"}, "unique", false},
		{[]float64{0.1, 0.10}, "unique", false}, {[]float32{0.1, 0.2}, "unique", true}, {[3]string{"x", "y", "x"}, "unique", false},
		{[]uint8{1, 1}, "unique", false}, {"a,b", "unique", true}} {
		n++
		if err := Var(c.v, c.rule); (err == nil) != c.ok {
			report("Var(%#v, %q) = %v, want member=%v", c.v, c.rule, err, c.ok)
		}
	}
	fmt.Printf("BOUNDED name=C05.rules cases=%d bound=36 rule instances (default and custom separators, quoted options) x members of the language, every single-character deletion/substitution/insertion over a 28-symbol alphabet (digits, letters, CJK, punctuation, separators, quotes, newline), %d seeded random strings each; 28 numeric/slice inputs\n", n, randoms)
	if viol > 0 {
		t.Fatalf("%d violations", viol)
	}
}
