package valid

// Bounded stand-in for C15 (explanation extractor result; custom message shown verbatim end to end).
// Run through go test -overlay against the real package; see DESIGN.md §4.3.

import (
	"fmt"
	"os"
	"strings"
	"testing"
)

func TestVerifBoundedC15(t *testing.T) {
	if os.Getenv("VERIF_BOUNDED") == "" {
		t.Skip("bounded stand-in: run by govc")
	}
	thorough := os.Getenv("VERIF_TIER") == "thorough"
	viol := 0
	report := func(name, f string, a ...interface{}) {
		viol++
		if viol <= 5 {
			fmt.Printf("BOUNDED-VIOLATION name=%s %s\n", name, fmt.Sprintf(f, a...))
		}
	}

	// 1. extractor on every error of <= 3 (thorough: 4) clauses; each clause Chinese-labelled, English-labelled or unlabelled
	pieces := []string{"", "a", "中", "a b", "x:y", "中a", "see explain: twice", "格式说明: 年-月"}
	heads := []string{"\"O.F\" input \"v\", ", "\"F\" input \"\", ", ""}
	type clause struct {
		text, exp string
		labelled bool
	}
	var clauses []clause
	for _, h := range heads {
		for _, p := range pieces {
			// a text that itself contains label wording only appears under the label the library picks for it
			if !strings.Contains(p, "explain:") {
				clauses = append(clauses, clause{h + ExplainZh + " " + p, p, true})
			}
			if !strings.Contains(p, "说明:") {
				clauses = append(clauses, clause{h + ExplainEn + " " + p, p, true})
			}
		}
	}
	clauses = append(clauses, clause{"\"O.F\" valid \"zz\" is not exist, You can call SetValidFn", "", false})
	clauses = append(clauses, clause{"\"O.F\" is not struct", "", false})
	maxClauses := 3
	if thorough {
		maxClauses = 4
	}
	n := 0
	var rec func(cur []clause)
	rec = func(cur []clause) {
		if len(cur) > 0 {
			n++
			var texts, want []string
			for _, c := range cur {
				texts = append(texts, c.text)
				if c.labelled {
					want = append(want, c.exp)
				}
			}
			in := strings.Join(texts, ErrEndFlag)
			got := GetOnlyExplainErr(in)
			if got != strings.Join(want, ErrEndFlag) {
				report("extractor", "GetOnlyExplainErr(%q) = %q, want %q", in, got, strings.Join(want, ErrEndFlag))
			}
		}
		if len(cur) == maxClauses {
			return
		}
		step := 1
		if len(cur) >= 2 && !thorough {
			step = 5 // thin out the third position in the quick tier
		}
		for i := 0; i < len(clauses); i += step {
			rec(append(cur, clauses[i]))
		}
	}
	rec(nil)
	if got := GetOnlyExplainErr(""); got != "" {
		report("extractor", "GetOnlyExplainErr(\"\") = %q", got)
	}
	fmt.Printf("BOUNDED name=extractor cases=%d bound=errors of 1..%d clauses from %d clause shapes (3 path heads x 6 explanation texts x {Chinese label, English label} + 2 unlabelled)\n", n, maxClauses, len(clauses))

	// 2. end to end: a violated rule with a custom message shows label + message verbatim, and the extractor returns the messages
	type rc struct {
		rule string
		val  interface{}
	}
	rules := []rc{{"to=5~6", "a"}, {"ge=5", 3}, {"le=1", "abc"}, {"oto=5~6", 5}, {"gt=5", uint8(5)}, {"lt=1", 2.5}, {"eq=3", "ab"}, {"noeq=2", "ab"},
		{"phone", "x"}, {"email", "x"}, {"idcard", "x"}, {"ip", "x"}, {"ipv4", "::1"}, {"ipv6", "1.1.1.1"}, {"year", "x"}, {"year2month", "x"}, {"date", "x"}, {"datetime", "x"},
		{"int", "x"}, {"ints", "1,x"}, {"float", "x"}, {"in=(a/b)", "c"}, {"include=(a/b)", "c"}, {"unique", "a,a"}, {"json", "{"}, {"prefix=ab", "x"}, {"suffix=ab", "x"},
		{"file", "/nonexistent/verif"}, {"dir", "/nonexistent/verif"}, {"re='^a$'", "b"}}
	msgs := []string{"bad", "必填", "mix 中文 ok", "x", "a=b", "'quoted, comma'", "see explain: 2 to 4", "格式说明: 年-月-日", "ends with;", "ends with spaces  "}
	n = 0
	for _, r := range rules {
		for _, m := range msgs {
			n++
			err := Var(r.val, r.rule+"|"+m)
			shown := strings.Trim(m, "'")
			_ = shown
			label := ExplainEn
			if IncludeZhRe.MatchString(m) {
				label = ExplainZh
			}
			if err == nil {
				report("message", "Var(%v, %q) returned nil, the rule is violated", r.val, r.rule+"|"+m)
				continue
			}
			want := ", " + label + " " + m
			if !strings.HasSuffix(err.Error(), want) {
				report("message", "Var(%v, %q) = %q, want the clause to end with %q", r.val, r.rule+"|"+m, err.Error(), want)
			}
			if got := GetOnlyExplainErr(err.Error()); got != m {
				report("message.extract", "GetOnlyExplainErr(%q) = %q, want %q", err.Error(), got, m)
			}
		}
	}
	// the same message through the other entry points (each has its own error assembly)
	type one struct{ F string }
	for _, m := range msgs {
		n++
		want := ", " + map[bool]string{true: ExplainZh, false: ExplainEn}[IncludeZhRe.MatchString(m)] + " " + m
		for name, err := range map[string]error{
			"Map":    Map(map[string]string{"k": "x"}, NewRule().Set("k", "phone|"+m)),
			"Struct": Struct(&one{"x"}, NewRule().Set("F", "phone|"+m)),
			"Url":    Url("h?k=x", NewRule().Set("k", "phone|"+m)),
			"[]Map":  Map([]map[string]string{{"k": "x"}}, NewRule().Set("k", "phone|"+m)),
		} {
			if err == nil || !strings.HasSuffix(err.Error(), want) {
				report("message", "%s with rule %q returned %v, want the clause to end with %q", name, "phone|"+m, err, want)
			} else if got := GetOnlyExplainErr(err.Error()); got != m {
				report("message.extract", "%s: GetOnlyExplainErr(%q) = %q, want %q", name, err.Error(), got, m)
			}
		}
	}
	// several rules: explanations in rule order
	for _, m1 := range msgs[:4] {
		for _, m2 := range msgs[:4] {
			n++
			err := Var("x", "to=5~6|"+m1, "zz", "phone|"+m2)
			if err == nil {
				report("message", "three violated rules returned nil")
				continue
			}
			if got := GetOnlyExplainErr(err.Error()); got != m1+ErrEndFlag+m2 {
				report("message.extract", "GetOnlyExplainErr(%q) = %q, want %q", err.Error(), got, m1+ErrEndFlag+m2)
			}
		}
	}
	fmt.Printf("BOUNDED name=message cases=%d bound=%d violated rules (every rule that takes a message) x %d messages (ASCII, CJK, mixed, one character, containing '=', quoted comma) through Var; pairs of messages with an unlabelled clause between\n", n, len(rules), len(msgs))
	if viol > 0 {
		t.Fatalf("%d violations", viol)
	}
}
