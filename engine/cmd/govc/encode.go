package main

import (
	"fmt"
	"go/ast"
	"os"
	"go/constant"
	"go/token"
	"go/types"
	"sort"
	"strings"

	"golang.org/x/tools/go/ssa"
)

// ---------------------------------------------------------------------------
// values, addresses, obligations

type Val struct {
	T  string
	S  Sort
	GT types.Type
	A  *Addr
	Fn *ssa.Function // statically known function value
}

type pathStep struct {
	field int    // >=0: struct field
	idx   string // when field < 0: array index term
	ct    types.Type // container type (struct or array)
}

type Addr struct {
	Root string // cell | ref | elem
	Var  string // cell: state variable
	Base string // ref: reference term; elem: backing-array reference
	Mem  string // elem: Mem.<sort> state variable
	Idx  string // elem: absolute index
	RT   types.Type
	Path []pathStep
}

type Obligation struct {
	Name    string // unique, stable: <func>/<kind>/<label or ordinal>
	Func    string
	Kind    string // safety requires ensures invariant-init invariant-preserve decreases assert frame lemma language cover
	Label   string
	Props   []string
	Src     string // clause text
	Pos     string // file:line (informational)
	nBody   int    // number of body lines preceding
	Goal    string // SMT term that must hold
	Inputs  []string
	enc     *enc
	Result  *SolverResult
	Query   string
	regexPattern, regexSpec string
	Vacuity bool // a cover whose unsat is a failed obligation (vacuous clause)
	Cover   bool // reachability query: premises and the path condition must be satisfiable (expected sat)
}

type deferRec struct {
	instr *ssa.Defer
	flag  string // state var
}

type loopInfo struct {
	head   *ssa.BasicBlock
	blocks map[*ssa.BasicBlock]bool
	latch  []*ssa.BasicBlock
	ord    int
	measure string
	framed  []string
}

type Env struct {
	vars  map[string]Val
	cur   map[string]string
	old   map[string]string
	bound map[string]Val
	e     *enc
}

type enc struct {
	v        *Verifier
	fn       *ssa.Function
	fc       *FuncContract
	name     string
	te       *TypeEnv
	decls    []string          // declarations local to this function's queries
	declared map[string]bool
	body     []string
	state    map[string]string // current state
	sorts    map[string]Sort   // state var sorts (shared via verifier)
	vers     map[string]int
	vals     map[ssa.Value]Val
	reach    map[*ssa.BasicBlock]string
	exitSt   map[*ssa.BasicBlock]map[string]string
	exitCond map[[2]int]string // edge condition
	initSt   map[string]string
	obls     []*Obligation
	fresh    int
	curReach string
	curBlock *ssa.BasicBlock
	defers   []deferRec
	loops    map[*ssa.BasicBlock]*loopInfo
	loopOrd  map[*ssa.BasicBlock]int
	params   map[string]Val
	lets     map[string]Val
	dbg      map[string][]ssa.Value // source name -> values (DebugRef)
	dbgObj   map[ssa.Value]map[string]types.Object // value -> name -> declared object (for scope checks)
	callOrd  map[string]int
	safeOrd  map[string]int
	errs     []string
	matchedCA map[*Clause]bool // call-site clauses that found their call site
	inl       []*inlineFrame   // helpers being inlined (innermost last)
	inlSeq    int
	inlPrefix string
	inlined   map[string]bool // helpers encoded in place (reported in evidence)
	dbgDone   map[*ssa.Function]bool
	noRename    bool
	needContract []string // in-repo callees without a contract that cannot be encoded in place
	renamedUsed map[string]string
	inputs   []string // names of input constants (for model projection)
	safetyProps []string
	discover   bool
	loopWrites map[*ssa.BasicBlock]map[string]bool
	tuples     map[ssa.Value][]Val
	deferArgs  map[*ssa.Defer][]Val
	iters      map[*ssa.Range]string
	aliasViews []string
	floatConv  bool
	uncontracted map[string]bool
	retOrd     int
	usedTrusted map[string]bool
	writeIdx   map[*ssa.BasicBlock]map[string][]string
	declSeq    map[string]int
	seq        int
	frames     []frameRec
	allocd     map[string]bool
	entryLets  map[string]Val
	rangeInfo  map[*ssa.Range]*rangeRec
	defs       map[string]string
	guardOf    map[ssa.Value]guardInfo
	coverOrd   int
	loopStmt   map[*ssa.BasicBlock]token.Pos
	frameAllowed map[string]bool
	frameLocs  map[string][][]string
	curPos     token.Pos
	covers     []*Obligation
}

type guardInfo struct {
	mutex string // term identifying the mutex
	props []string
	what  string
}

type frameRec struct {
	line    int
	head    *ssa.BasicBlock
	name    string
	pre     string
	post    string
	headSeq int
	front   string
	reach   string
}

func (e *enc) errf(f string, a ...interface{}) {
	msg := fmt.Sprintf(f, a...)
	e.errs = append(e.errs, msg)
}

func (e *enc) newName(prefix string) string {
	e.fresh++
	return fmt.Sprintf("%s!%d", symSafe(prefix), e.fresh)
}

func (e *enc) declConst(name string, s Sort) {
	if e.declared[name] {
		return
	}
	e.declared[name] = true
	e.seq++
	e.declSeq[name] = e.seq
	e.decls = append(e.decls, fmt.Sprintf("(declare-const %s %s)", name, s))
}

func (e *enc) declFun(name string, args []Sort, ret Sort) {
	if e.declared[name] {
		return
	}
	e.declared[name] = true
	e.decls = append(e.decls, fmt.Sprintf("(declare-fun %s (%s) %s)", name, strings.Join(args, " "), ret))
}

func (e *enc) freshConst(prefix string, s Sort) string {
	n := e.newName(prefix)
	e.declConst(n, s)
	return n
}

func (e *enc) assume(t string) {
	if t == "true" {
		return
	}
	e.body = append(e.body, "(assert "+t+")")
}

// assumeHere asserts a fact guarded by the current reachability condition.
func (e *enc) assumeHere(t string) { e.assume(implies(e.curReach, t)) }

// define introduces a named constant equal to term (keeps terms small).
func (e *enc) define(prefix string, s Sort, term string) string {
	if len(term) < 40 && !strings.Contains(term, "(ite") {
		return term
	}
	n := e.freshConst(prefix, s)
	e.assume(eq(n, term))
	if e.defs == nil {
		e.defs = map[string]string{}
	}
	e.defs[n] = term
	return n
}

// atom names a non-atomic term (used for slice indices so that quantifier patterns of the form
// (select row (+ off j)) match the ground access term instead of an arithmetic normal form of it).
func (e *enc) atom(prefix string, s Sort, term string) string {
	if !strings.ContainsAny(term, "( ") {
		return term
	}
	n := e.freshConst(prefix, s)
	e.assume(eq(n, term))
	if e.defs == nil {
		e.defs = map[string]string{}
	}
	e.defs[n] = term
	return n
}

// ---------------------------------------------------------------------------
// state

func (e *enc) stateSort(name string) Sort {
	s, ok := e.sorts[name]
	if !ok {
		panic("state variable without sort: " + name)
	}
	return s
}

func (e *enc) regState(name string, s Sort) {
	if old, ok := e.sorts[name]; ok && old != s {
		panic(fmt.Sprintf("state var %s: sort %s vs %s", name, old, s))
	}
	e.sorts[name] = s
}

func (e *enc) initial(name string) string {
	n := symSafe(name) + "!0"
	e.declConst(n, e.stateSort(name))
	return n
}

func (e *enc) getIn(st map[string]string, name string) string {
	if t, ok := st[name]; ok {
		return t
	}
	return e.initial(name)
}

func (e *enc) get(name string) string { return e.getIn(e.state, name) }

func (e *enc) set(name, term string) {
	s := e.stateSort(name)
	// note the written location: (store <current> IDX ...) writes index IDX only
	cur := e.get(name)
	pre := "(store " + cur + " "
	if strings.HasPrefix(term, pre) {
		rest := term[len(pre):]
		e.noteWrite(name, rest[:skipSexp(rest)])
	} else {
		e.noteWrite(name, "")
	}
	e.vers[name]++
	n := fmt.Sprintf("%s!v%d", symSafe(name), e.vers[name])
	e.declConst(n, s)
	e.assume(eq(n, term))
	e.state[name] = n
}

func (e *enc) havoc(name string) string {
	e.noteWrite(name, "")
	return e.havocQuiet(name)
}

func (e *enc) havocQuiet(name string) string {
	s := e.stateSort(name)
	e.vers[name]++
	n := fmt.Sprintf("%s!h%d", symSafe(name), e.vers[name])
	e.declConst(n, s)
	e.state[name] = n
	return n
}

// noteWrite records, for every loop enclosing the current block, that state variable `name`
// was written at first-level index idx ("" = the whole variable).
func (e *enc) noteWrite(name, idx string) {
	if e.curBlock == nil || e.loops == nil {
		return
	}
	for h, li := range e.loops {
		if !li.blocks[e.curBlock] {
			continue
		}
		if e.loopWrites[h] == nil {
			e.loopWrites[h] = map[string]bool{}
		}
		e.loopWrites[h][name] = true
		if e.writeIdx[h] == nil {
			e.writeIdx[h] = map[string][]string{}
		}
		if idx == "" {
			e.writeIdx[h][name] = append(e.writeIdx[h][name], "*")
		} else {
			e.writeIdx[h][name] = append(e.writeIdx[h][name], idx)
		}
	}
}

func copyState(m map[string]string) map[string]string {
	c := make(map[string]string, len(m))
	for k, v := range m {
		c[k] = v
	}
	return c
}

func (e *enc) heapName(st types.Type, field int) string {
	s := st.Underlying().(*types.Struct)
	name := "H." + symSafe(typeName(st)) + "." + s.Field(field).Name()
	e.regState(name, "(Array Int "+e.te.SortOf(s.Field(field).Type())+")")
	return name
}

func (e *enc) memName(elemSort Sort) string {
	name := "Mem." + sortKey(elemSort)
	e.regState(name, "(Array Int (Array Int "+elemSort+"))")
	return name
}

func (e *enc) mapNames(m *types.Map) (dom, val, ln string, ks, vs Sort) {
	ks, vs = e.te.SortOf(m.Key()), e.te.SortOf(m.Elem())
	key := sortKey(ks) + "." + sortKey(vs)
	dom, val, ln = "MapDom."+key, "MapVal."+key, "MapLen."+key
	e.regState(dom, "(Array Int (Array "+ks+" Bool))")
	e.regState(val, "(Array Int (Array "+ks+" "+vs+"))")
	e.regState(ln, "(Array Int Int)")
	return
}

func (e *enc) globalName(g *ssa.Global) string {
	name := "G." + shortPkg(g.Pkg.Pkg.Path()) + "." + g.Name()
	e.regState(name, e.te.SortOf(g.Type().(*types.Pointer).Elem()))
	return name
}

// allocRef returns a fresh reference.
func (e *enc) allocRef(prefix string) string {
	e.regState("frontier", "Int")
	r := e.freshConst(prefix, "Int")
	e.allocd[r] = true
	f := e.get("frontier")
	e.assumeHere(and("(>= "+r+" "+f+")", "(> "+r+" 0)"))
	e.set("frontier", "(+ "+r+" 1)")
	return r
}

// knownRef records that a reference read from existing state was allocated before now.
func (e *enc) knownRef(t string) {
	e.regState("frontier", "Int")
	e.assumeHere("(< " + t + " " + e.get("frontier") + ")")
}

// ---------------------------------------------------------------------------
// addresses

func (e *enc) loadAddr(a *Addr) (string, types.Type) {
	var cur string
	var t types.Type
	path := a.Path
	switch a.Root {
	case "cell":
		cur, t = e.get(a.Var), a.RT
	case "elem":
		cur, t = sel(e.get(a.Mem), a.Base, a.Idx), a.RT
	case "ref":
		if len(path) == 0 {
			return e.loadStruct(a.Base, a.RT), a.RT
		}
		st := a.RT.Underlying().(*types.Struct)
		cur, t = sel(e.get(e.heapName(a.RT, path[0].field)), a.Base), st.Field(path[0].field).Type()
		path = path[1:]
	}
	for _, p := range path {
		if p.field >= 0 {
			si := e.te.structOf(t)
			cur = "(" + si.fields[p.field] + " " + cur + ")"
			t = t.Underlying().(*types.Struct).Field(p.field).Type()
		} else {
			cur = sel(cur, p.idx)
			t = t.Underlying().(*types.Array).Elem()
		}
	}
	return cur, t
}

func (e *enc) loadStruct(ref string, st types.Type) string {
	s := st.Underlying().(*types.Struct)
	si := e.te.structOf(st)
	if s.NumFields() == 0 {
		return si.ctor
	}
	var parts []string
	for i := 0; i < s.NumFields(); i++ {
		parts = append(parts, sel(e.get(e.heapName(st, i)), ref))
	}
	return "(" + si.ctor + " " + strings.Join(parts, " ") + ")"
}

func (e *enc) updPath(cur string, t types.Type, path []pathStep, nv string) string {
	if len(path) == 0 {
		return nv
	}
	p := path[0]
	if p.field >= 0 {
		si := e.te.structOf(t)
		s := t.Underlying().(*types.Struct)
		var parts []string
		for i := 0; i < s.NumFields(); i++ {
			f := "(" + si.fields[i] + " " + cur + ")"
			if i == p.field {
				f = e.updPath(f, s.Field(i).Type(), path[1:], nv)
			}
			parts = append(parts, f)
		}
		return "(" + si.ctor + " " + strings.Join(parts, " ") + ")"
	}
	el := t.Underlying().(*types.Array).Elem()
	return "(store " + cur + " " + p.idx + " " + e.updPath(sel(cur, p.idx), el, path[1:], nv) + ")"
}

func (e *enc) storeAddr(a *Addr, nv string) {
	switch a.Root {
	case "cell":
		e.set(a.Var, e.updPath(e.get(a.Var), a.RT, a.Path, nv))
	case "elem":
		m := e.get(a.Mem)
		old := sel(m, a.Base, a.Idx)
		e.set(a.Mem, sto(m, e.updPath(old, a.RT, a.Path, nv), a.Base, a.Idx))
	case "ref":
		if len(a.Path) == 0 {
			s := a.RT.Underlying().(*types.Struct)
			si := e.te.structOf(a.RT)
			for i := 0; i < s.NumFields(); i++ {
				h := e.heapName(a.RT, i)
				e.set(h, sto(e.get(h), "("+si.fields[i]+" "+nv+")", a.Base))
			}
			return
		}
		h := e.heapName(a.RT, a.Path[0].field)
		ft := a.RT.Underlying().(*types.Struct).Field(a.Path[0].field).Type()
		old := sel(e.get(h), a.Base)
		e.set(h, sto(e.get(h), e.updPath(old, ft, a.Path[1:], nv), a.Base))
	}
}

// addrOf interprets a pointer-typed SSA value as an address.
func (e *enc) addrOf(v Val, pointee types.Type) *Addr {
	if v.A != nil {
		return v.A
	}
	// plain reference
	if _, ok := pointee.Underlying().(*types.Struct); ok && !isOpaqueStruct(pointee) {
		return &Addr{Root: "ref", Base: v.T, RT: pointee}
	}
	if arr, ok := pointee.Underlying().(*types.Array); ok {
		_ = arr
		// pointer to array allocated in Mem: handled by IndexAddr directly
		return nil
	}
	// pointer to scalar living in an anonymous heap cell: Cell.<sort>[ref]
	s := e.te.SortOf(pointee)
	name := "Cell." + sortKey(s)
	e.regState(name, "(Array Int (Array Int "+s+"))")
	return &Addr{Root: "elem", Mem: name, Base: v.T, Idx: "0", RT: pointee}
}

// ---------------------------------------------------------------------------
// obligations

// splitConj flattens the top-level conjunction of an SMT term.
func splitConj(t string) []string {
	t = strings.TrimSpace(t)
	if !strings.HasPrefix(t, "(and ") || !balanced(t[5:len(t)-1]) {
		return []string{t}
	}
	var out []string
	rest := strings.TrimSpace(t[5 : len(t)-1])
	for len(rest) > 0 {
		k := skipSexp(rest)
		out = append(out, splitConj(rest[:k])...)
		rest = strings.TrimSpace(rest[k:])
	}
	return out
}

// oblige records a proof obligation; a conjunction is split into one obligation per conjunct
// (smaller queries; the failing conjunct is named in the report).
func (e *enc) oblige(kind, label string, props []string, src, goal string, pos token.Pos) *Obligation {
	switch kind {
	case "requires", "ensures", "proves", "invariant-init", "invariant-preserve", "assert":
		if parts := splitConj(goal); len(parts) > 1 {
			var last *Obligation
			for i, p := range parts {
				last = e.oblige1(kind, fmt.Sprintf("%s .%d", label, i+1), props, src, p, pos)
			}
			return last
		}
	}
	return e.oblige1(kind, label, props, src, goal, pos)
}

func (e *enc) oblige1(kind, label string, props []string, src, goal string, pos token.Pos) *Obligation {
	if goal == "true" {
		// still recorded so that counts are stable, but trivially discharged
	}
	name := e.name + "/" + kind + "/" + label
	// uniqueness
	for _, o := range e.obls {
		if o.Name == name {
			e.safeOrd[name]++
			name = fmt.Sprintf("%s#%d", name, e.safeOrd[name])
			break
		}
	}
	o := &Obligation{Name: name, Func: e.name, Kind: kind, Label: label, Props: props, Src: src,
		nBody: len(e.body), Goal: implies(e.curReach, goal), enc: e}
	if pos.IsValid() && e.fn != nil {
		p := e.fn.Prog.Fset.Position(pos)
		o.Pos = fmt.Sprintf("%s:%d", strings.TrimPrefix(p.Filename, e.v.repo+"/"), p.Line)
	}
	e.obls = append(e.obls, o)
	return o
}

func (e *enc) safety(kind string, goal string, pos token.Pos) {
	e.safeOrd["k:"+kind]++
	label := fmt.Sprintf("%s#%d", kind, e.safeOrd["k:"+kind])
	e.oblige("safety", label, e.safetyProps, kind, goal, pos)
	// after the check the execution continues only if it held
	e.assumeHere(goal)
}

// ---------------------------------------------------------------------------
// constants

func (e *enc) constVal(c *ssa.Const) Val {
	t := c.Type()
	s := e.te.SortOf(t)
	if c.Value == nil { // nil / zero
		return Val{T: e.te.Zero(t), S: s, GT: t}
	}
	switch c.Value.Kind() {
	case constant.Bool:
		if constant.BoolVal(c.Value) {
			return Val{T: "true", S: "Bool", GT: t}
		}
		return Val{T: "false", S: "Bool", GT: t}
	case constant.String:
		return Val{T: smtStr(constant.StringVal(c.Value)), S: "String", GT: t}
	case constant.Int:
		if s == "Real" {
			return Val{T: "(to_real " + smtInt(c.Value.ExactString()) + ")", S: "Real", GT: t}
		}
		return Val{T: smtInt(c.Value.ExactString()), S: "Int", GT: t}
	case constant.Float:
		if s == "Int" {
			i := constant.ToInt(c.Value)
			return Val{T: smtInt(i.ExactString()), S: "Int", GT: t}
		}
		r := c.Value.ExactString() // a/b or integer
		if strings.Contains(r, "/") {
			p := strings.SplitN(r, "/", 2)
			return Val{T: "(/ " + smtReal(p[0]) + " " + smtReal(p[1]) + ")", S: "Real", GT: t}
		}
		return Val{T: smtReal(r), S: "Real", GT: t}
	}
	e.errf("unsupported constant %v", c)
	return Val{T: e.te.Zero(t), S: s, GT: t}
}

func smtReal(s string) string {
	if strings.HasPrefix(s, "-") {
		return "(- " + s[1:] + ".0)"
	}
	return s + ".0"
}

// ---------------------------------------------------------------------------
// operand lookup

func (e *enc) val(v ssa.Value) Val {
	switch x := v.(type) {
	case *ssa.Const:
		return e.constVal(x)
	case *ssa.Global:
		name := e.globalName(x)
		el := x.Type().(*types.Pointer).Elem()
		return Val{T: smtInt(fmt.Sprint(e.v.globalID(name))), S: "Int", GT: x.Type(), A: &Addr{Root: "cell", Var: name, RT: el}}
	case *ssa.Function:
		return Val{T: fmt.Sprint(e.v.funcID(x)), S: "Int", GT: x.Type(), Fn: x}
	case *ssa.Builtin:
		return Val{T: "0", S: "Int", GT: x.Type()}
	}
	if r, ok := e.vals[v]; ok {
		return r
	}
	e.errf("use of undefined SSA value %s (%T) in %s", v.Name(), v, e.name)
	s := e.te.SortOf(v.Type())
	return Val{T: e.freshConst("undef", s), S: s, GT: v.Type()}
}

func (e *enc) bind(v ssa.Value, r Val) {
	if r.GT == nil {
		r.GT = v.Type()
	}
	e.vals[v] = r
}

// fresh value of a Go type, with its type invariant assumed
func (e *enc) freshVal(prefix string, t types.Type) Val {
	s := e.te.SortOf(t)
	n := e.freshConst(prefix, s)
	e.assume(e.te.TypeInv(n, t))
	return Val{T: n, S: s, GT: t}
}

// ---------------------------------------------------------------------------
// loops / CFG

func (e *enc) findLoops() {
	e.loops = map[*ssa.BasicBlock]*loopInfo{}
	fn := e.fn
	// back edge: u -> h where h dominates u
	for _, b := range fn.Blocks {
		for _, s := range b.Succs {
			if s.Dominates(b) {
				li := e.loops[s]
				if li == nil {
					li = &loopInfo{head: s, blocks: map[*ssa.BasicBlock]bool{s: true}}
					e.loops[s] = li
				}
				li.latch = append(li.latch, b)
				// natural loop: all blocks that reach b without passing through s
				stack := []*ssa.BasicBlock{b}
				for len(stack) > 0 {
					x := stack[len(stack)-1]
					stack = stack[:len(stack)-1]
					if li.blocks[x] {
						continue
					}
					li.blocks[x] = true
					for _, p := range x.Preds {
						stack = append(stack, p)
					}
				}
			}
		}
	}
	// ordinal: loops in source order of their `for`/`range` statement
	var heads []*ssa.BasicBlock
	for h := range e.loops {
		heads = append(heads, h)
	}
	e.mapLoopsToSyntax()
	sort.Slice(heads, func(i, j int) bool { return e.loopPos(heads[i]) < e.loopPos(heads[j]) })
	for i, h := range heads {
		e.loops[h].ord = i
		if os.Getenv("GOVC_DEBUG_LOOPS") != "" && !e.discover {
			fmt.Fprintf(os.Stderr, "LOOP %s #%d head=b%d pos=%s\n", e.name, i, h.Index, e.fn.Prog.Fset.Position(e.loopPos(h)))
		}
	}
}

// mapLoopsToSyntax assigns to every natural loop the for/range statement most of its own instructions
// (those not inside a nested loop) lie in; instruction positions alone are unreliable (jumps of an enclosing
// switch carry the switch's position).
func (e *enc) mapLoopsToSyntax() {
	e.loopStmt = map[*ssa.BasicBlock]token.Pos{}
	syn := e.fn.Syntax()
	if syn == nil {
		return
	}
	type span struct{ pos, end token.Pos }
	var stmts []span
	ast.Inspect(syn, func(n ast.Node) bool {
		switch x := n.(type) {
		case *ast.FuncLit:
			if ast.Node(x) != syn {
				return false
			}
		case *ast.ForStmt:
			stmts = append(stmts, span{x.Pos(), x.End()})
		case *ast.RangeStmt:
			stmts = append(stmts, span{x.Pos(), x.End()})
		}
		return true
	})
	// match the two loop forests in preorder: natural loops nest by block-set inclusion, siblings are ordered by the first
	// position of a non-control instruction anywhere inside them; for/range statements in source order are the preorder of
	// their nesting
	sort.Slice(stmts, func(a, b int) bool { return stmts[a].pos < stmts[b].pos })
	minPos := func(li *loopInfo) token.Pos {
		best := token.Pos(1 << 40)
		for b := range li.blocks {
			for _, in := range b.Instrs {
				switch in.(type) {
				case *ssa.If, *ssa.Jump, *ssa.Phi, *ssa.DebugRef:
					continue
				}
				if p := in.Pos(); p.IsValid() && p < best {
					best = p
				}
			}
		}
		return best
	}
	parent := map[*ssa.BasicBlock]*ssa.BasicBlock{}
	for h, li := range e.loops {
		for h2, l2 := range e.loops {
			if h2 != h && l2.blocks[h] && len(l2.blocks) > len(li.blocks) {
				if p, ok := parent[h]; !ok || len(e.loops[p].blocks) > len(l2.blocks) {
					parent[h] = h2
				}
			}
		}
	}
	var order []*ssa.BasicBlock
	var visit func(p *ssa.BasicBlock)
	visit = func(p *ssa.BasicBlock) {
		var kids []*ssa.BasicBlock
		for h := range e.loops {
			if q, ok := parent[h]; (p == nil && !ok) || (ok && q == p && p != nil) {
				kids = append(kids, h)
			}
		}
		sort.Slice(kids, func(a, b int) bool { return minPos(e.loops[kids[a]]) < minPos(e.loops[kids[b]]) })
		for _, k := range kids {
			order = append(order, k)
			visit(k)
		}
	}
	visit(nil)
	if len(order) == len(stmts) {
		for i, h := range order {
			e.loopStmt[h] = stmts[i].pos
		}
	}
}

func (e *enc) loopPos(h *ssa.BasicBlock) token.Pos {
	if p, ok := e.loopStmt[h]; ok {
		return p
	}
	// position of the loop: smallest instruction position within the loop's blocks
	best := token.Pos(1 << 40)
	for b := range e.loops[h].blocks {
		for _, in := range b.Instrs {
			if p := in.Pos(); p.IsValid() && p < best {
				best = p
			}
		}
	}
	return best
}

func isBackEdge(from, to *ssa.BasicBlock) bool { return to.Dominates(from) }

func (e *enc) rpo() []*ssa.BasicBlock {
	var order []*ssa.BasicBlock
	seen := map[*ssa.BasicBlock]bool{}
	var dfs func(b *ssa.BasicBlock)
	dfs = func(b *ssa.BasicBlock) {
		seen[b] = true
		for _, s := range b.Succs {
			if !seen[s] && !isBackEdge(b, s) {
				dfs(s)
			}
		}
		order = append(order, b)
	}
	dfs(e.fn.Blocks[0])
	if e.fn.Recover != nil && !seen[e.fn.Recover] {
		// recover block is not modelled (no panics are recovered in scope)
	}
	for i, j := 0, len(order)-1; i < j; i, j = i+1, j-1 {
		order[i], order[j] = order[j], order[i]
	}
	return order
}

func (e *enc) edgeCond(from, to *ssa.BasicBlock) string {
	r := e.reach[from]
	if r == "" {
		return "false"
	}
	last := from.Instrs[len(from.Instrs)-1]
	if ifi, ok := last.(*ssa.If); ok {
		c := e.val(ifi.Cond).T
		if from.Succs[0] == to && from.Succs[1] == to {
			return r
		}
		if from.Succs[0] == to {
			return and(r, c)
		}
		return and(r, not(c))
	}
	return r
}

func (e *enc) cellName(a *ssa.Alloc) string {
	name := "cell." + symSafe(e.name) + "." + e.inlPrefix + a.Name()
	e.regState(name, e.te.SortOf(a.Type().(*types.Pointer).Elem()))
	return name
}

func (e *enc) deferFlag(d *ssa.Defer) string {
	idx := 0
	for _, b := range e.fn.Blocks {
		for _, in := range b.Instrs {
			if in == ssa.Instruction(d) {
				name := fmt.Sprintf("defer.%s.%d", symSafe(e.name), idx)
				e.regState(name, "Bool")
				return name
			}
			if _, ok := in.(*ssa.Defer); ok {
				idx++
			}
		}
	}
	return "defer.unknown"
}


// cover records a reachability query for the current point: the premises gathered so far together with the
// path condition must be satisfiable. `unsat` means the point is dead code or, worse, that contracts, axioms
// or the encoding contradict each other there (everything after it would be proved vacuously).
func (e *enc) cover(label string, pos token.Pos) {
	o := &Obligation{Name: e.name + "/cover/" + label, Func: e.name, Kind: "cover", Label: label, Src: "reachable: premises and path condition are satisfiable",
		nBody: len(e.body), Goal: e.curReach, enc: e, Cover: true}
	if pos.IsValid() && e.fn != nil {
		p := e.fn.Prog.Fset.Position(pos)
		o.Pos = fmt.Sprintf("%s:%d", strings.TrimPrefix(p.Filename, e.v.repo+"/"), p.Line)
	}
	e.covers = append(e.covers, o)
}

// coverVac: a cover whose unsatisfiability is a failed obligation (a clause whose antecedent can never hold states nothing).
func (e *enc) coverVac(label string, props []string, src string, pos token.Pos) {
	e.cover(label, pos)
	o := e.covers[len(e.covers)-1]
	o.Vacuity = true
	o.Props = props
	o.Src = "antecedent satisfiable (vacuity guard) of: " + src
}
