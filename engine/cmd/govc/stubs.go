package main

type BoundedResult struct {
	OK    bool
	Known bool
	Lines []string
	Info  map[string]interface{}
}

func runBounded(v *Verifier, root, repo, prop, name, tier string, seed int) BoundedResult {
	return BoundedResult{OK: true, Info: map[string]interface{}{"name": name, "note": "not implemented"}}
}

func (v *Verifier) lemmaObligations(prop string) []*Obligation { return nil }

