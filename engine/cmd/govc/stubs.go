package main

import (
	"fmt"
	"os"
	"path/filepath"
	"strings"
	"time"
)

type BoundedResult struct {
	OK    bool
	Known bool
	Lines []string
	KnownLines []string
	Info  map[string]interface{}
}

// BoundedSpec (scope file): a bounded-exhaustive check of real functions against the executable form of their
// contract clause; a STAND-IN where the deductive engine cannot reach (string content inside loops). It is labelled
// bounded in the evidence and never counted among the proved obligations.
type BoundedSpec struct {
	Name string `json:"name"`
	File string `json:"file"` // test source in /verif/replaygen, injected into the package through go test -overlay
	Pkg  string `json:"pkg"`
	Test string `json:"test"`
	What string `json:"what"`
	Race bool   `json:"race"` // run under the race detector (go test -race)
}

func runBounded(v *Verifier, root, repo, prop string, b BoundedSpec, tier string, seed int) BoundedResult {
	t0 := time.Now()
	env := []string{"VERIF_TIER=" + tier, fmt.Sprintf("VERIF_SEED=%d", seed), "VERIF_BOUNDED=1"}
	timeout := 300 * time.Second
	if tier == "thorough" {
		timeout = 900 * time.Second
	}
	var extra []string
	if b.Race {
		extra = []string{"-race"}
		timeout *= 3
	}
	_, out := runHarnessX(repo, root, b.File, b.Pkg, b.Test, env, timeout, extra)
	if b.Race && strings.Contains(out, "WARNING: DATA RACE") {
		out += "\nBOUNDED-VIOLATION name=" + b.Name + " the race detector reported a data race: " + firstLines(out[strings.Index(out, "WARNING: DATA RACE"):], 12) + "\n"
	}
	info := map[string]interface{}{"name": b.Name, "kind": "bounded stand-in (exhaustive up to the stated bound; NOT a proof)", "what": b.What,
		"harness": "replaygen/" + b.File, "package": b.Pkg, "test": b.Test}
	var checks []map[string]interface{}
	var viol []string
	var known []string
	cases := 0
	for _, l := range strings.Split(out, "\n") {
		l = strings.TrimSpace(l)
		if strings.HasPrefix(l, "BOUNDED-VIOLATION ") {
			viol = append(viol, strings.TrimPrefix(l, "BOUNDED-VIOLATION "))
		} else if strings.HasPrefix(l, "BOUNDED-KNOWN ") {
			// a recorded genuine defect reproduced: reported as KNOWN-FINDING when listed in known_findings.json, as a violation otherwise
			rest := strings.TrimPrefix(l, "BOUNDED-KNOWN ")
			tag := ""
			if f := strings.Fields(rest); len(f) > 0 && strings.HasPrefix(f[0], "tag=") {
				tag = strings.TrimPrefix(f[0], "tag=")
			}
			listed := false
			for _, k := range loadKnown(root) {
				if k.Property == prop && k.Status == "known" && k.Bounded == tag && tag != "" {
					listed = true
					line := fmt.Sprintf("KNOWN-FINDING: property=%s %s", prop, k.What)
					dup := false
					for _, x := range known {
						if x == line {
							dup = true
						}
					}
					if !dup {
						known = append(known, line)
					}
				}
			}
			if !listed {
				viol = append(viol, "unlisted finding: "+rest)
			}
		} else if strings.HasPrefix(l, "BOUNDED ") {
			f := map[string]interface{}{}
			rest := strings.TrimPrefix(l, "BOUNDED ")
			if k := strings.Index(rest, " bound="); k >= 0 {
				f["bound"] = rest[k+len(" bound="):]
				rest = rest[:k]
			}
			for _, kv := range strings.Fields(rest) {
				if i := strings.Index(kv, "="); i > 0 {
					f[kv[:i]] = kv[i+1:]
					if kv[:i] == "cases" {
						var n int
						fmt.Sscan(kv[i+1:], &n)
						cases += n
					}
				}
			}
			checks = append(checks, f)
		}
	}
	info["checks"] = checks
	info["cases"] = cases
	info["wall_s"] = time.Since(t0).Seconds()
	res := BoundedResult{OK: true, Info: info, KnownLines: known}
	info["known_findings_reproduced"] = known
	ran := strings.Contains(out, "\nok ") || strings.HasPrefix(out, "ok ") || strings.Contains(out, "--- PASS") || strings.Contains(out, "PASS")
	if len(viol) > 0 || !ran || cases == 0 {
		res.OK = false
		dir := filepath.Join(root, "replays", prop)
		os.MkdirAll(dir, 0755)
		path := filepath.Join(dir, "bounded_"+sanitize(b.Name)+".replay.txt")
		var sb strings.Builder
		fmt.Fprintf(&sb, "property: %s\nbounded stand-in: %s\nwhat: %s\nharness: %s (package %s, test %s), run through go test -overlay against %s\n\n", prop, b.Name, b.What, b.File, b.Pkg, b.Test, repo)
		if len(viol) > 0 {
			fmt.Fprintf(&sb, "failing inputs on the real code (first %d):\n", len(viol))
			for _, x := range viol {
				sb.WriteString("  " + x + "\n")
			}
			res.Lines = append(res.Lines, fmt.Sprintf("FAILED-BOUNDED %s: %s", b.Name, viol[0]))
			res.Lines = append(res.Lines, fmt.Sprintf("VIOLATION property=%s replay=%s", prop, path))
		} else {
			fmt.Fprintf(&sb, "the harness did not complete (compile error, panic or timeout); output tail:\n%s\n", lastLines(out, 25))
			res.Lines = append(res.Lines, fmt.Sprintf("FAILED-BOUNDED %s: harness did not complete: %s", b.Name, firstLines(lastLines(out, 6), 6)))
			res.Lines = append(res.Lines, fmt.Sprintf("VIOLATION property=%s replay=%s no-failing-input-found", prop, path))
		}
		os.WriteFile(path, []byte(sb.String()), 0644)
		info["violations"] = viol
	}
	return res
}

// lemmaObligations: closed formulas over spec functions (`//@ lemma [Cxx name] formula`), proved on their own.
func (v *Verifier) lemmaObligations(prop string) []*Obligation {
	var out []*Obligation
	for _, l := range v.ct.Lemmas {
		if !hasProp(l.Props, prop) {
			continue
		}
		e := &enc{v: v, te: v.te, name: "lemma", declared: map[string]bool{}, state: map[string]string{}, sorts: v.sorts, vers: map[string]int{},
			declSeq: map[string]int{}, allocd: map[string]bool{}, safeOrd: map[string]int{}}
		e.curReach = "true"
		e.initSt = map[string]string{}
		env := &Env{vars: map[string]Val{}, cur: e.state, e: e}
		g := e.trBool(l.E, env, "lemma "+l.Label)
		for _, m := range e.errs {
			out = append(out, &Obligation{Name: "unsupported/lemma/" + sanitize(clauseName(l)), Kind: "unsupported", Props: l.Props, Src: m, Result: &SolverResult{Status: "unsupported", Output: m}})
		}
		if len(e.errs) > 0 {
			continue
		}
		o := &Obligation{Name: "lemma/" + clauseName(l), Func: "lemma", Kind: "lemma", Label: clauseName(l), Props: l.Props, Src: l.Src, nBody: 0, Goal: g, enc: e,
			Pos: fmt.Sprintf("%s:%d", strings.TrimPrefix(l.File, v.repo+"/"), l.Line)}
		out = append(out, o)
	}
	return out
}

