package main

// Rename tolerance.
//
// Contracts name parameters and locals of the functions they are attached to. /verif/baseline holds a copy of the
// source files as they were when the contracts were last validated. When a function's body differs from its baseline
// only by a consistent renaming of parameters and local variables (alpha-equivalence, decided by a parallel walk of the
// two syntax trees), the renaming is recovered mechanically and a contract identifier that no longer resolves is looked
// up under its new name. Any other difference leaves the contract as written.

import (
	"go/ast"
	"go/parser"
	"go/token"
	"go/types"
	"os"
	"path/filepath"
	"reflect"
	"strings"

	"golang.org/x/tools/go/ssa"
)

type alphaMatcher struct {
	aLo, aHi, bLo, bHi token.Pos
	fwd                map[*ast.Object]*ast.Object
	bwd                map[*ast.Object]*ast.Object
}

var (
	tyPos     = reflect.TypeOf(token.NoPos)
	tyIdent   = reflect.TypeOf((*ast.Ident)(nil))
	tyObject  = reflect.TypeOf((*ast.Object)(nil))
	tyScope   = reflect.TypeOf((*ast.Scope)(nil))
	tyCGroup  = reflect.TypeOf((*ast.CommentGroup)(nil))
	tyKeyVal  = reflect.TypeOf((*ast.KeyValueExpr)(nil))
	tyBasic   = reflect.TypeOf((*ast.BasicLit)(nil))
)

func (m *alphaMatcher) local(o *ast.Object, lo, hi token.Pos) bool {
	if o == nil {
		return false
	}
	p := o.Pos()
	return p.IsValid() && lo <= p && p < hi
}

func (m *alphaMatcher) ident(a, b *ast.Ident) bool {
	la, lb := m.local(a.Obj, m.aLo, m.aHi), m.local(b.Obj, m.bLo, m.bHi)
	if la != lb {
		return false
	}
	if !la {
		return a.Name == b.Name
	}
	if x, ok := m.fwd[a.Obj]; ok {
		return x == b.Obj
	}
	if _, ok := m.bwd[b.Obj]; ok {
		return false
	}
	m.fwd[a.Obj] = b.Obj
	m.bwd[b.Obj] = a.Obj
	return true
}

func (m *alphaMatcher) eq(x, y reflect.Value) bool {
	if x.IsValid() != y.IsValid() {
		return false
	}
	if !x.IsValid() {
		return true
	}
	if x.Type() != y.Type() {
		return false
	}
	switch x.Kind() {
	case reflect.Interface:
		if x.IsNil() || y.IsNil() {
			return x.IsNil() == y.IsNil()
		}
		return m.eq(x.Elem(), y.Elem())
	case reflect.Ptr:
		switch x.Type() {
		case tyObject, tyScope, tyCGroup:
			return true
		}
		if x.IsNil() || y.IsNil() {
			return x.IsNil() == y.IsNil()
		}
		switch x.Type() {
		case tyIdent:
			return m.ident(x.Interface().(*ast.Ident), y.Interface().(*ast.Ident))
		case tyKeyVal:
			ka, kb := x.Interface().(*ast.KeyValueExpr), y.Interface().(*ast.KeyValueExpr)
			ia, oka := ka.Key.(*ast.Ident)
			ib, okb := kb.Key.(*ast.Ident)
			if oka && okb && ia.Name == ib.Name {
				// a struct-literal field key may be mis-resolved to a local of the same name: equal names are enough
				return m.eq(reflect.ValueOf(ka.Value), reflect.ValueOf(kb.Value))
			}
		}
		return m.eq(x.Elem(), y.Elem())
	case reflect.Struct:
		for i := 0; i < x.NumField(); i++ {
			ft := x.Type().Field(i)
			if ft.Type == tyPos || ft.Type == tyObject || ft.Type == tyScope || ft.Type == tyCGroup {
				continue
			}
			if !m.eq(x.Field(i), y.Field(i)) {
				return false
			}
		}
		return true
	case reflect.Slice:
		if x.Len() != y.Len() {
			return false
		}
		for i := 0; i < x.Len(); i++ {
			if !m.eq(x.Index(i), y.Index(i)) {
				return false
			}
		}
		return true
	case reflect.String:
		return x.String() == y.String()
	case reflect.Bool:
		return x.Bool() == y.Bool()
	case reflect.Int, reflect.Int8, reflect.Int16, reflect.Int32, reflect.Int64:
		return x.Int() == y.Int()
	case reflect.Uint, reflect.Uint8, reflect.Uint16, reflect.Uint32, reflect.Uint64:
		return x.Uint() == y.Uint()
	}
	return true
}

func funcDeclKey(pkgDir string, fd *ast.FuncDecl) string {
	recv := ""
	if fd.Recv != nil && len(fd.Recv.List) == 1 {
		t := fd.Recv.List[0].Type
		if st, ok := t.(*ast.StarExpr); ok {
			t = st.X
			recv = "*"
		}
		if id, ok := t.(*ast.Ident); ok {
			recv += id.Name
		}
	}
	return pkgDir + "|" + recv + "|" + fd.Name.Name
}

func parseFuncDecls(root string) map[string]*ast.FuncDecl {
	out := map[string]*ast.FuncDecl{}
	filepath.Walk(root, func(p string, info os.FileInfo, err error) error {
		if err != nil || info.IsDir() || !strings.HasSuffix(p, ".go") || strings.HasSuffix(p, "_test.go") || strings.HasSuffix(p, "contracts_verif.go") {
			return nil
		}
		if strings.Contains(p, "/.git/") || strings.Contains(p, "/vendor/") {
			return nil
		}
		fset := token.NewFileSet()
		f, perr := parser.ParseFile(fset, p, nil, 0)
		if perr != nil {
			return nil
		}
		rel, _ := filepath.Rel(root, filepath.Dir(p))
		for _, d := range f.Decls {
			if fd, ok := d.(*ast.FuncDecl); ok && fd.Body != nil {
				out[funcDeclKey(rel, fd)] = fd
			}
		}
		return nil
	})
	return out
}

// loadRenames compares every function of the repository with its baseline copy; for alpha-equivalent pairs whose
// local names differ it returns old name -> new names, keyed by funcDeclKey.
func loadRenames(repo, baseline string) map[string]map[string][]string {
	out := map[string]map[string][]string{}
	if _, err := os.Stat(baseline); err != nil {
		return out
	}
	base := parseFuncDecls(baseline)
	cur := parseFuncDecls(repo)
	for key, a := range base {
		b := cur[key]
		if b == nil {
			continue
		}
		m := &alphaMatcher{aLo: a.Pos(), aHi: a.End(), bLo: b.Pos(), bHi: b.End(), fwd: map[*ast.Object]*ast.Object{}, bwd: map[*ast.Object]*ast.Object{}}
		if !m.eq(reflect.ValueOf(a.Recv), reflect.ValueOf(b.Recv)) || !m.eq(reflect.ValueOf(a.Type), reflect.ValueOf(b.Type)) || !m.eq(reflect.ValueOf(a.Body), reflect.ValueOf(b.Body)) {
			continue
		}
		rn := map[string][]string{}
		for oa, ob := range m.fwd {
			if oa.Name != ob.Name {
				dup := false
				for _, x := range rn[oa.Name] {
					if x == ob.Name {
						dup = true
					}
				}
				if !dup {
					rn[oa.Name] = append(rn[oa.Name], ob.Name)
				}
			}
		}
		if len(rn) > 0 {
			out[key] = rn
		}
	}
	return out
}

// snapshotBaseline copies the repository's non-test Go sources to the baseline directory.
func snapshotBaseline(repo, baseline string) error {
	os.RemoveAll(baseline)
	return filepath.Walk(repo, func(p string, info os.FileInfo, err error) error {
		if err != nil {
			return nil
		}
		if info.IsDir() {
			if info.Name() == ".git" || info.Name() == "vendor" {
				return filepath.SkipDir
			}
			return nil
		}
		if !strings.HasSuffix(p, ".go") || strings.HasSuffix(p, "_test.go") || strings.HasSuffix(p, "contracts_verif.go") {
			return nil
		}
		rel, _ := filepath.Rel(repo, p)
		dst := filepath.Join(baseline, rel)
		os.MkdirAll(filepath.Dir(dst), 0755)
		data, rerr := os.ReadFile(p)
		if rerr != nil {
			return rerr
		}
		return os.WriteFile(dst, data, 0644)
	})
}

// renamesFor: old name -> candidate new names for the function (or its enclosing declaration, for closures).
func (v *Verifier) renamesFor(fn *ssa.Function) map[string][]string {
	if fn == nil || len(v.renames) == 0 {
		return nil
	}
	for fn.Parent() != nil {
		fn = fn.Parent()
	}
	if fn.Pkg == nil {
		return nil
	}
	dir := strings.TrimPrefix(fn.Pkg.Pkg.Path(), strings.TrimSuffix(modPath, "/"))
	dir = strings.TrimPrefix(dir, "/")
	if dir == "" {
		dir = "."
	}
	recv := ""
	if r := fn.Signature.Recv(); r != nil {
		t := r.Type()
		if p, ok := t.(*types.Pointer); ok {
			t = p.Elem()
			recv = "*"
		}
		if n, ok := t.(*types.Named); ok {
			recv += n.Obj().Name()
		}
	}
	return v.renames[dir+"|"+recv+"|"+fn.Name()]
}
