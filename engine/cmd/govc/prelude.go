package main

// SMT prelude shared by every query.
const smtPrelude = `
(declare-sort Any 0)
(declare-sort RVal 0)
(declare-sort RType 0)
(declare-datatypes ((Slice 0)) (((mk-slice (s-ptr Int) (s-off Int) (s-len Int) (s-cap Int)))))
(declare-datatypes ((Iface 0)) (((mk-iface (i-tag Int) (i-val Any)))))
(declare-const any.nil Any)
(define-fun nilslice () Slice (mk-slice 0 0 0 0))
(define-fun niliface () Iface (mk-iface 0 any.nil))
(declare-const rv.zeroValue RVal)
(declare-const rt.nil RType)
(define-fun slice.wf ((s Slice)) Bool (and (>= (s-ptr s) 0) (>= (s-off s) 0) (>= (s-len s) 0) (>= (s-cap s) (s-len s)) (<= (s-cap s) 72057594037927936) (=> (= (s-ptr s) 0) (= (s-cap s) 0))))
(define-fun wrap_u8 ((x Int)) Int (mod x 256))
(define-fun wrap_u16 ((x Int)) Int (mod x 65536))
(define-fun wrap_u32 ((x Int)) Int (mod x 4294967296))
(define-fun wrap_u64 ((x Int)) Int (mod x 18446744073709551616))
(define-fun wrap_s8 ((x Int)) Int (- (mod (+ x 128) 256) 128))
(define-fun wrap_s16 ((x Int)) Int (- (mod (+ x 32768) 65536) 32768))
(define-fun wrap_s32 ((x Int)) Int (- (mod (+ x 2147483648) 4294967296) 2147483648))
(define-fun wrap_s64 ((x Int)) Int (- (mod (+ x 9223372036854775808) 18446744073709551616) 9223372036854775808))
(define-fun trunc_real ((x Real)) Int (ite (>= x 0.0) (to_int x) (- (to_int (- x)))))
(define-fun go_div ((a Int) (b Int)) Int (ite (>= a 0) (ite (> b 0) (div a b) (- (div a (- b)))) (ite (> b 0) (- (div (- a) b)) (div (- a) (- b)))))
(define-fun go_rem ((a Int) (b Int)) Int (- a (* b (go_div a b))))
(define-fun abs_int ((x Int)) Int (ite (>= x 0) x (- x)))
(define-fun abs_real ((x Real)) Real (ite (>= x 0.0) x (- x)))
`
