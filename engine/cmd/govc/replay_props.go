package main

import (
	"bytes"
	"encoding/json"
	"fmt"
	"math/big"
	"os"
	"os/exec"
	"path/filepath"
	"strings"
	"sync"
	"time"
)

// runHarness injects /verif/replaygen/<file> into package dir pkg of the repository through
// `go test -overlay` (nothing is written into the repository) and returns the REPLAY-CONFIRMED lines.
func runHarness(repo, root, file, pkg, test string, env []string, timeout time.Duration) ([]string, string) {
	return runHarnessX(repo, root, file, pkg, test, env, timeout, nil)
}

func runHarnessX(repo, root, file, pkg, test string, env []string, timeout time.Duration, extraArgs []string) ([]string, string) {
	work, err := os.MkdirTemp("", "govc-replay-")
	if err != nil {
		return nil, err.Error()
	}
	defer os.RemoveAll(work)
	src := filepath.Join(root, "replaygen", file)
	if strings.HasPrefix(file, "/") {
		src = file
	}
	dst := filepath.Join(repo, pkg, "zz_verif_replay_test.go")
	ov := map[string]interface{}{"Replace": map[string]string{dst: src}}
	data, _ := json.Marshal(ov)
	ovf := filepath.Join(work, "ov.json")
	os.WriteFile(ovf, data, 0644)
	args := []string{"test", "-overlay", ovf, "-vet=off", "-v", "-count=1", "-timeout", fmt.Sprintf("%ds", int(timeout.Seconds())), "-run", "^" + test + "$"}
	args = append(args, extraArgs...)
	args = append(args, "./"+pkg)
	cmd := exec.Command("go", args...)
	cmd.Dir = repo
	cmd.Env = append(os.Environ(), "GOFLAGS=-mod=mod", "GOPROXY=off", "GOSUMDB=off", "GOTOOLCHAIN=local")
	cmd.Env = append(cmd.Env, env...)
	var out bytes.Buffer
	cmd.Stdout = &out
	cmd.Stderr = &out
	cmd.Run()
	var lines []string
	for _, l := range strings.Split(out.String(), "\n") {
		if strings.HasPrefix(l, "REPLAY-CONFIRMED ") {
			lines = append(lines, strings.TrimPrefix(l, "REPLAY-CONFIRMED "))
		}
		if strings.HasPrefix(l, "WARNING: DATA RACE") {
			lines = append(lines, "data race reported by the race detector (go test -race)")
		}
		if strings.HasPrefix(l, "panic: ") || strings.HasPrefix(l, "fatal error: ") {
			lines = append(lines, "real code crashed: "+l)
		}
	}
	return lines, out.String()
}

func smtIntVal(s string) (*big.Int, bool) {
	s = strings.TrimSpace(s)
	neg := false
	if strings.HasPrefix(s, "(- ") {
		neg = true
		s = strings.TrimSuffix(strings.TrimPrefix(s, "(- "), ")")
	}
	s = strings.TrimSuffix(s, ".0")
	v, ok := new(big.Int).SetString(strings.TrimSpace(s), 10)
	if !ok {
		return nil, false
	}
	if neg {
		v.Neg(v)
	}
	return v, true
}

func smtRealVal(s string) (string, bool) {
	s = strings.TrimSpace(s)
	neg := false
	if strings.HasPrefix(s, "(- ") {
		neg = true
		s = strings.TrimSuffix(strings.TrimPrefix(s, "(- "), ")")
	}
	var r *big.Rat
	if strings.HasPrefix(s, "(/ ") {
		p := strings.Fields(strings.TrimSuffix(strings.TrimPrefix(s, "(/ "), ")"))
		if len(p) != 2 {
			return "", false
		}
		a, ok1 := new(big.Rat).SetString(p[0])
		b, ok2 := new(big.Rat).SetString(p[1])
		if !ok1 || !ok2 || b.Sign() == 0 {
			return "", false
		}
		r = new(big.Rat).Quo(a, b)
	} else {
		var ok bool
		r, ok = new(big.Rat).SetString(s)
		if !ok {
			return "", false
		}
	}
	if neg {
		r.Neg(r)
	}
	f, _ := r.Float64()
	return fmt.Sprint(f), true
}

func smtStrVal(s string) (string, bool) {
	s = strings.TrimSpace(s)
	if len(s) < 2 || s[0] != '"' {
		return "", false
	}
	s = s[1 : len(s)-1]
	s = strings.ReplaceAll(s, "\"\"", "\"")
	var b []byte
	for i := 0; i < len(s); i++ {
		if strings.HasPrefix(s[i:], "\\u{") {
			j := strings.Index(s[i:], "}")
			var v int
			fmt.Sscanf(s[i+3:i+j], "%x", &v)
			if v < 256 {
				b = append(b, byte(v))
			} else {
				b = append(b, []byte(string(rune(v)))...)
			}
			i += j
			continue
		}
		if strings.HasPrefix(s[i:], "\\x") && i+3 < len(s) {
			var v int
			fmt.Sscanf(s[i+2:i+4], "%x", &v)
			b = append(b, byte(v))
			i += 3
			continue
		}
		b = append(b, s[i])
	}
	return string(b), true
}

var kindNames = map[int64]string{1: "bool", 2: "int", 3: "int8", 4: "int16", 5: "int32", 6: "int64", 7: "uint", 8: "uint8", 9: "uint16", 10: "uint32", 11: "uint64",
	13: "float32", 14: "float64", 23: "slice", 24: "string"}

func replayOnRealCode(v *Verifier, o *Obligation, prop string, inputs, model map[string]string, repo, root, work string, seed int) *ReplayResult {
	if o.Kind == "language" {
		return replayRegex(o, model, repo, root, work)
	}
	switch prop {
	case "C01":
		return replayC01(v, o, repo, root, work, seed)
	case "C09":
		return searchReplay(repo, root, "C09_replay_test.go", "valid", "TestVerifReplayC09", []string{"VERIF_SEARCH=" + fmt.Sprint(seed) + ":5"}, nil,
			"bounded-exhaustive search over operation sequences (<= 5 ops, 3 keys, 2 values, capacities 0..2) against a reference LRU")
	case "C10":
		return searchReplay(repo, root, "C10_replay_test.go", "valid", "TestVerifReplayC10", nil, []string{"-race"},
			"8 goroutines of random Store/Load/Delete/Len/Dump streams on one cache under the race detector")
	}
	return nil
}

func replayC01(v *Verifier, o *Obligation, repo, root, work string, seed int) *ReplayResult {
	var cases []map[string]interface{}
	detail := ""
	if o.enc != nil && o.enc.params["tv"].T != "" {
		tv := o.enc.params["tv"].T
		terms := []string{"(rv.kind " + tv + ")", "(rv.int " + tv + ")", "(rv.uint " + tv + ")", "(rv.float " + tv + ")", "(rv.len " + tv + ")", "(runeCount (rv.str " + tv + "))", "(str.len (rv.str " + tv + "))"}
		var bounds []string
		if _, ok := o.enc.params["min"]; ok {
			bounds = []string{o.enc.params["min"].T, o.enc.params["max"].T}
		} else if l, ok := o.enc.entryLets["lo"]; ok {
			bounds = []string{l.T, o.enc.entryLets["hi"].T}
		} else if l, ok := o.enc.entryLets["n"]; ok {
			bounds = []string{l.T, l.T}
		} else if l, ok := o.enc.entryLets["val"]; ok {
			bounds = []string{"(atoi " + l.T + ")", "(atoi " + l.T + ")"}
		}
		vals := evalTerms(o, work, seed, append(terms, bounds...))
		if vals != nil {
			detail += fmt.Sprintf("model values: %v\n", vals)
			k, ok := smtIntVal(vals[terms[0]])
			if ok {
				kind := kindNames[k.Int64()]
				var val string
				switch {
				case k.Int64() >= 2 && k.Int64() <= 6:
					if x, ok := smtIntVal(vals[terms[1]]); ok {
						val = x.String()
					}
				case k.Int64() >= 7 && k.Int64() <= 11:
					if x, ok := smtIntVal(vals[terms[2]]); ok {
						val = x.String()
					}
				case k.Int64() == 13 || k.Int64() == 14:
					val, _ = smtRealVal(vals[terms[3]])
				case k.Int64() == 23:
					if x, ok := smtIntVal(vals[terms[4]]); ok {
						val = x.String()
					}
				case k.Int64() == 24:
					n, ok1 := smtIntVal(vals[terms[5]])
					l, ok2 := smtIntVal(vals[terms[6]])
					if ok1 && ok2 && n.Int64() >= 0 && n.Int64() < 4096 {
						extra := l.Int64() - n.Int64()
						var sb strings.Builder
						for i := int64(0); i < n.Int64(); i++ {
							if extra > 0 {
								sb.WriteString("é")
								extra--
							} else {
								sb.WriteString("a")
							}
						}
						val = sb.String()
					}
				}
				lo, hi := int64(0), int64(0)
				if len(bounds) == 2 {
					if x, ok := smtIntVal(vals[bounds[0]]); ok && x.IsInt64() {
						lo = x.Int64()
					}
					if x, ok := smtIntVal(vals[bounds[1]]); ok && x.IsInt64() {
						hi = x.Int64()
					}
				}
				if kind != "" && val != "" {
					for _, r := range []string{"to", "oto", "ge", "gt", "le", "lt", "eq", "noeq"} {
						cases = append(cases, map[string]interface{}{"kind": kind, "val": val, "rule": r, "lo": lo, "hi": hi})
					}
				}
			}
		}
	}
	var env []string
	if len(cases) > 0 {
		data, _ := json.Marshal(cases)
		cf := filepath.Join(work, sanitize(o.Name)+".cases.json")
		os.WriteFile(cf, data, 0644)
		env = append(env, "VERIF_CASES="+cf)
		detail += "cases from the model: " + string(data) + "\n"
	}
	lines, out := runHarness(repo, root, "C01_replay_test.go", "valid", "TestVerifReplayC01", env, 60*time.Second)
	how := "counter-model replayed through Var() against the property's oracle"
	if len(lines) == 0 {
		// witness search
		env = []string{fmt.Sprintf("VERIF_SEARCH=%d:200000", seed+1)}
		lines, out = runHarness(repo, root, "C01_replay_test.go", "valid", "TestVerifReplayC01", env, 60*time.Second)
		how = "witness search (seeded random inputs around the bounds) against the property's oracle"
	}
	if len(lines) > 0 {
		return &ReplayResult{Confirmed: true, Summary: "CONFIRMED by " + how, Detail: detail + strings.Join(lines, "\n")}
	}
	return &ReplayResult{Confirmed: false, Summary: "not confirmed (" + how + ")", Detail: detail + lastLines(out, 5)}
}

func lastLines(s string, n int) string {
	l := strings.Split(strings.TrimSpace(s), "\n")
	if len(l) > n {
		l = l[len(l)-n:]
	}
	return strings.Join(l, "\n")
}

var searchCache sync.Map

// searchReplay runs a property's witness search once per check run (results are shared by all
// failed obligations of the property).
func searchReplay(repo, root, file, pkg, test string, env, extra []string, how string) *ReplayResult {
	key := repo + "|" + file
	if r, ok := searchCache.Load(key); ok {
		return r.(*ReplayResult)
	}
	lines, out := runHarnessX(repo, root, file, pkg, test, env, 120*time.Second, extra)
	var res *ReplayResult
	if len(lines) > 0 {
		if len(lines) > 3 {
			lines = lines[:3]
		}
		res = &ReplayResult{Confirmed: true, Summary: "CONFIRMED by " + how, Detail: strings.Join(lines, "\n")}
	} else {
		res = &ReplayResult{Confirmed: false, Summary: "not confirmed (" + how + ")", Detail: lastLines(out, 5)}
	}
	searchCache.Store(key, res)
	return res
}

// replayRegex: the solver's witness string is run through the real package-level regexp and through
// the spec pattern compiled by the regexp package; they must disagree for the violation to be confirmed.
func replayRegex(o *Obligation, model map[string]string, repo, root, work string) *ReplayResult {
	w, ok := smtStrVal(model["s"])
	if model == nil || !ok {
		return &ReplayResult{Confirmed: false, Summary: "no witness string in the solver model"}
	}
	i := strings.LastIndex(o.Func, ".")
	pkg, ident := o.Func[:i], o.Func[i+1:]
	pkgDir := map[string]string{"valid": "valid", "file": "file", "internal": "valid/internal", "main": "."}[pkg]
	pkgName := map[string]string{"valid": "valid", "file": "file", "internal": "internal", "main": "main"}[pkg]
	src := fmt.Sprintf(`package %s

import (
	"fmt"
	"regexp"
	"testing"
)

func TestVerifReplayRegex(t *testing.T) {
	w := %q
	spec := regexp.MustCompile(%q)
	got, want := %s.MatchString(w), spec.MatchString(w)
	if got != want {
		fmt.Printf("REPLAY-CONFIRMED %s.MatchString(%%q) = %%v but the documented language %%q says %%v\n", w, got, spec.String(), want)
	}
}
`, pkgName, w, o.regexSpec, ident, ident)
	f := filepath.Join(work, sanitize(o.Name)+"_replay_test.go")
	os.WriteFile(f, []byte(src), 0644)
	lines, out := runHarness(repo, root, f, pkgDir, "TestVerifReplayRegex", nil, 60*time.Second)
	detail := fmt.Sprintf("witness: %q\n", w)
	if len(lines) > 0 {
		return &ReplayResult{Confirmed: true, Summary: "CONFIRMED: the solver's witness string replayed on the real regexp", Detail: detail + strings.Join(lines, "\n") + "\n--- replay test source ---\n" + src}
	}
	return &ReplayResult{Confirmed: false, Summary: "not confirmed", Detail: detail + lastLines(out, 5)}
}
