package main

// Inlining of small helpers that carry no contract.
//
// A static call to an in-repo function that has no contract used to be an arbitrary effect (havoc): correct, but a
// maintainer who extracts a few lines into an unexported helper then loses every proof of the caller although nothing
// changed. Such a helper — loop-free, no defer/go/closure, not recursive, in the same module — is instead encoded in
// place: its blocks are walked with the parameters bound to the arguments, its returns are merged into the caller's
// state, its safety obligations become obligations of the caller (in the caller's context), and call-site clauses of
// the caller's contract still see the calls that moved into the helper (the ordinal of a call is its position in the
// encoding order, which inlining preserves). Helpers with loops are not inlined: a loop needs its own invariant.

import (
	"fmt"
	"go/token"
	"go/types"

	"golang.org/x/tools/go/ssa"
)

type inlineRet struct {
	reach   string
	state   map[string]string
	results []Val
}

type inlineFrame struct {
	fn    *ssa.Function
	entry *ssa.BasicBlock
	reach string
	rets  []inlineRet
	outer map[string]Val // the caller's source-level names at the call site
}

func inlinable(f *ssa.Function) bool {
	if f == nil || f.Blocks == nil || len(f.FreeVars) > 0 || f.Recover != nil || f.Synthetic != "" {
		return false
	}
	n := 0
	for _, b := range f.Blocks {
		for _, s := range b.Succs {
			if isBackEdge(b, s) {
				return false
			}
		}
		for _, in := range b.Instrs {
			n++
			switch in.(type) {
			case *ssa.Defer, *ssa.Go, *ssa.Select, *ssa.RunDefers, *ssa.MakeClosure:
				return false
			}
		}
	}
	return n <= 200
}

func (e *enc) canInline(f *ssa.Function) bool {
	if !inlinable(f) || f == e.fn || len(e.inl) >= 3 {
		return false
	}
	for _, fr := range e.inl {
		if fr.fn == f {
			return false
		}
	}
	return true
}

func rpoOf(f *ssa.Function) []*ssa.BasicBlock {
	var order []*ssa.BasicBlock
	seen := map[*ssa.BasicBlock]bool{}
	var dfs func(b *ssa.BasicBlock)
	dfs = func(b *ssa.BasicBlock) {
		seen[b] = true
		for _, s := range b.Succs {
			if !seen[s] && !isBackEdge(b, s) {
				dfs(s)
			}
		}
		order = append(order, b)
	}
	dfs(f.Blocks[0])
	for i, j := 0, len(order)-1; i < j; i, j = i+1, j-1 {
		order[i], order[j] = order[j], order[i]
	}
	return order
}

// inlineCall encodes callee's body at the current point and returns its results.
func (e *enc) inlineCall(f *ssa.Function, args []Val, rts []types.Type, pos token.Pos) []Val {
	e.inlSeq++
	if e.inlined == nil {
		e.inlined = map[string]bool{}
	}
	e.inlined[e.v.funcName(f)] = true
	fr := &inlineFrame{fn: f, entry: f.Blocks[0], reach: e.curReach, outer: e.currentNames()}
	savedBlock, savedPrefix, savedPos := e.curBlock, e.inlPrefix, e.curPos
	e.inlPrefix = fmt.Sprintf("%sinl%d.", savedPrefix, e.inlSeq)
	e.inl = append(e.inl, fr)
	e.collectDebugRefsOf(f)
	for i, p := range f.Params {
		if i < len(args) {
			a := args[i]
			a.GT = p.Type()
			e.vals[p] = a
		}
	}
	for _, b := range rpoOf(f) {
		e.block(b)
	}
	e.inl = e.inl[:len(e.inl)-1]
	e.inlPrefix = savedPrefix
	e.curBlock = savedBlock
	e.curPos = savedPos
	// merge the returns
	if len(fr.rets) == 0 {
		// the helper never returns (always panics): nothing after the call is reachable
		e.curReach = "false"
		e.reach[savedBlock] = "false"
		var res []Val
		for i, t := range rts {
			res = append(res, e.freshVal(fmt.Sprintf("r.inl.%d", i), t))
		}
		return res
	}
	var conds []string
	for _, r := range fr.rets {
		conds = append(conds, r.reach)
	}
	after := e.define("reach.after.inl", "Bool", or(conds...))
	keys := map[string]bool{}
	for _, r := range fr.rets {
		for k := range r.state {
			keys[k] = true
		}
	}
	merged := map[string]string{}
	for k := range keys {
		last := fr.rets[len(fr.rets)-1]
		t := e.getIn(last.state, k)
		same := true
		for i := len(fr.rets) - 2; i >= 0; i-- {
			ti := e.getIn(fr.rets[i].state, k)
			if ti != t {
				same = false
			}
			t = ite(fr.rets[i].reach, ti, t)
		}
		if same {
			merged[k] = e.getIn(fr.rets[0].state, k)
		} else {
			e.vers[k]++
			n := fmt.Sprintf("%s!m%d", symSafe(k), e.vers[k])
			e.declConst(n, e.stateSort(k))
			e.assume(eq(n, t))
			merged[k] = n
		}
	}
	e.state = merged
	e.curReach = after
	e.reach[savedBlock] = after
	var res []Val
	for i, t := range rts {
		var term string
		var v0 Val
		for j := len(fr.rets) - 1; j >= 0; j-- {
			if i >= len(fr.rets[j].results) {
				continue
			}
			x := fr.rets[j].results[i]
			if term == "" {
				term, v0 = x.T, x
			} else {
				term = ite(fr.rets[j].reach, x.T, term)
			}
		}
		if term == "" {
			res = append(res, e.freshVal(fmt.Sprintf("r.inl.%d", i), t))
			continue
		}
		s := e.te.SortOf(t)
		v := Val{T: e.define(fmt.Sprintf("r.inl%d.%d", e.inlSeq, i), s, term), S: s, GT: t}
		if len(fr.rets) == 1 {
			v.A, v.Fn = v0.A, v0.Fn
		}
		res = append(res, v)
	}
	return res
}

// inlineReturn records a return of the helper being inlined.
func (e *enc) inlineReturn(x *ssa.Return) {
	fr := e.inl[len(e.inl)-1]
	var rs []Val
	for _, r := range x.Results {
		rs = append(rs, e.val(r))
	}
	fr.rets = append(fr.rets, inlineRet{reach: e.curReach, state: copyState(e.state), results: rs})
}

// collectDebugRefsOf adds the source-level names of an inlined helper to the name table.
func (e *enc) collectDebugRefsOf(f *ssa.Function) {
	if e.dbgDone == nil {
		e.dbgDone = map[*ssa.Function]bool{}
	}
	if e.dbgDone[f] {
		return
	}
	e.dbgDone[f] = true
	e.collectDebugRefsIn(f)
}

// inlinedOnly: unexported helpers without a contract that are inlinable and only ever used as the static callee of calls
// from functions of the repository. They are verified where they are called (in the caller's context), not on their own:
// on its own a helper has no precondition, and its safety obligations would fail for arguments no caller passes.
func (v *Verifier) inlinedOnly() map[*ssa.Function]bool {
	if v.inlOnly != nil {
		return v.inlOnly
	}
	v.inlOnly = map[*ssa.Function]bool{}
	called := map[*ssa.Function]int{}
	escapes := map[*ssa.Function]bool{}
	for _, g := range v.funcs {
		for _, b := range g.Blocks {
			for _, in := range b.Instrs {
				if _, isDbg := in.(*ssa.DebugRef); isDbg {
					continue
				}
				var callee ssa.Value
				if ci, ok := in.(ssa.CallInstruction); ok {
					callee = ci.Common().Value
					if f := ci.Common().StaticCallee(); f != nil {
						called[f]++
						if _, isDefer := in.(*ssa.Defer); isDefer {
							escapes[f] = true
						}
						if _, isGo := in.(*ssa.Go); isGo {
							escapes[f] = true
						}
					}
				}
				for _, op := range in.Operands(nil) {
					if op == nil || *op == nil {
						continue
					}
					if f, ok := (*op).(*ssa.Function); ok && *op != callee {
						escapes[f] = true
					}
				}
			}
		}
	}
	for n, f := range v.funcs {
		if _, has := v.ct.Funcs[n]; has {
			continue
		}
		if f.Object() == nil || f.Object().Exported() || f.Signature.Recv() != nil && false {
			continue
		}
		if called[f] > 0 && !escapes[f] && inlinable(f) && v.inRepo(f) {
			v.inlOnly[f] = true
		}
	}
	return v.inlOnly
}
