package main

import (
	"syscall"
	"unsafe"
	"bytes"
	"regexp"
	"context"
	"fmt"
	"os"
	"os/exec"
	"path/filepath"
	"strings"
	"sync"
	"sync/atomic"
	"time"
)

// ---- string literal printing (one SMT char per byte) ----

func smtStr(s string) string {
	var b strings.Builder
	b.WriteByte('"')
	for i := 0; i < len(s); i++ {
		c := s[i]
		switch {
		case c == '"':
			b.WriteString("\"\"")
		case c == '\\':
			b.WriteString("\\u{5c}")
		case c >= 0x20 && c < 0x7f:
			b.WriteByte(c)
		default:
			fmt.Fprintf(&b, "\\u{%x}", c)
		}
	}
	b.WriteByte('"')
	return b.String()
}

func smtInt(v string) string {
	if strings.HasPrefix(v, "-") {
		return "(- " + v[1:] + ")"
	}
	return v
}

func and(xs ...string) string {
	var ys []string
	for _, x := range xs {
		if x == "true" || x == "" {
			continue
		}
		if x == "false" {
			return "false"
		}
		ys = append(ys, x)
	}
	switch len(ys) {
	case 0:
		return "true"
	case 1:
		return ys[0]
	}
	return "(and " + strings.Join(ys, " ") + ")"
}
func or(xs ...string) string {
	var ys []string
	for _, x := range xs {
		if x == "false" || x == "" {
			continue
		}
		if x == "true" {
			return "true"
		}
		ys = append(ys, x)
	}
	switch len(ys) {
	case 0:
		return "false"
	case 1:
		return ys[0]
	}
	return "(or " + strings.Join(ys, " ") + ")"
}
func not(x string) string {
	if x == "true" {
		return "false"
	}
	if x == "false" {
		return "true"
	}
	if strings.HasPrefix(x, "(not ") && balanced(x[5:len(x)-1]) {
		return x[5 : len(x)-1]
	}
	return "(not " + x + ")"
}
func balanced(s string) bool {
	d := 0
	for i := 0; i < len(s); i++ {
		if s[i] == '(' {
			d++
		} else if s[i] == ')' {
			d--
			if d < 0 {
				return false
			}
		}
	}
	return d == 0
}
func implies(a, b string) string {
	if a == "true" {
		return b
	}
	if b == "true" || a == "false" {
		return "true"
	}
	return "(=> " + a + " " + b + ")"
}
func ite(c, a, b string) string {
	if c == "true" {
		return a
	}
	if c == "false" {
		return b
	}
	if a == b {
		return a
	}
	return "(ite " + c + " " + a + " " + b + ")"
}
func eq(a, b string) string {
	if a == b {
		return "true"
	}
	return "(= " + a + " " + b + ")"
}
func sel(a string, idx ...string) string {
	for _, i := range idx {
		a = "(select " + a + " " + i + ")"
	}
	return a
}

// store a[i1][i2] := v
func sto(a string, v string, idx ...string) string {
	if len(idx) == 1 {
		return "(store " + a + " " + idx[0] + " " + v + ")"
	}
	inner := sto(sel(a, idx[0]), v, idx[1:]...)
	return "(store " + a + " " + idx[0] + " " + inner + ")"
}

// ---- solver racing ----

type SolverResult struct {
	Status string // unsat sat unknown timeout error
	Solver string
	Ms     int64
	Output string
	All    map[string]string // per-solver status
}

type solverCfg struct {
	name string
	args func(file string, timeout int) []string
	pre  string // prepended to the file for this solver
}

var solvers = []solverCfg{
	{"z3-new", func(f string, t int) []string { return []string{"z3-new", fmt.Sprintf("-T:%d", t), f} }, ""},
	// z3 4.8.12 is NOT used: on satisfiable queries mixing strings, quantifiers and wrap-around arithmetic it was observed
	// to answer `unsat` (a reachability cover of valid.Re; the 72-assertion core is satisfiable by inspection and both other
	// solvers disagree), so its `unsat` cannot discharge anything.
	{"cvc5", func(f string, t int) []string {
		return []string{"cvc5", "--strings-exp", "--produce-models", fmt.Sprintf("--tlimit=%d", t*1000), f}
	}, ""},
}

var solverSem = make(chan struct{}, 16)

// wallFactor: wall-clock backstop as a multiple of the CPU-time limit of one solver run
const wallFactor = 8

// runSMT races the configured solvers on the query. wantModel adds (get-model).
func runSMT(workdir, name, query string, timeoutS int, seed int, only []string) SolverResult {
	return runSMTPost(workdir, name, query, "(get-model)", timeoutS, seed, only)
}

var smtFileSeq int64

func runSMTPost(workdir, name, query, post string, timeoutS int, seed int, only []string) SolverResult {
	return runSMTCtx(context.Background(), workdir, name, query, post, timeoutS, seed, only)
}

var strOps = []string{"str.++", "str.substr", "str.replace", "str.at", "str.indexof", "str.contains", "str.prefixof", "str.suffixof", "str.in_re", "str.to_code", "str.from_code", "str.<"}

// withoutStrings drops every assertion that mentions a string operation (string equalities and lengths stay).
// Dropping premises is a sound weakening: `unsat` of the result implies `unsat` of the full query.
func withoutStrings(query string) (string, bool) {
	lines := strings.Split(query, "\n")
	var kept []string
	changed := false
	for i, l := range lines {
		isGoal := i == len(lines)-1 || (strings.HasPrefix(l, "(assert (not ") && i >= len(lines)-2)
		drop := false
		if strings.HasPrefix(l, "(assert ") && !isGoal {
			for _, op := range strOps {
				if strings.Contains(l, op) {
					drop = true
					break
				}
			}
		}
		if drop {
			changed = true
			continue
		}
		kept = append(kept, l)
	}
	return strings.Join(kept, "\n"), changed
}

var symTokRe = regexp.MustCompile(`[A-Za-z_][A-Za-z0-9_.!$#/\-]*`)

func lineSymbols(l string) map[string]bool {
	out := map[string]bool{}
	for _, t := range symTokRe.FindAllString(l, -1) {
		if strings.HasPrefix(t, "reach.") || strings.HasPrefix(t, "frontier") || strings.HasPrefix(t, "q.") || strings.HasPrefix(t, "fr.") || strings.HasPrefix(t, "str.") {
			continue
		}
		switch t {
		case "assert", "forall", "exists", "and", "or", "not", "ite", "select", "store", "let", "true", "false", "Int", "Bool", "String", "Array", "as", "const", "pattern",
			"s-ptr", "s-off", "s-len", "s-cap", "mk-slice", "i-tag", "i-val", "mk-iface", "nilslice", "niliface", "to_real", "div", "mod", "abs":
			continue
		}
		out[t] = true
	}
	return out
}

// focused keeps the goal, every quantifier-free assertion, and only those quantified assertions that share a symbol
// with the goal's cone (the goal's symbols closed under the definitions `(assert (= name term))` of named terms).
// Sound weakening (premises are only dropped); it removes the quantifier noise of unrelated invariants.
func focused(query string, depth int) (string, bool) {
	lines := strings.Split(query, "\n")
	gi := -1
	for i := len(lines) - 1; i >= 0; i-- {
		if strings.HasPrefix(lines[i], "(assert (not ") {
			gi = i
			break
		}
	}
	if gi < 0 {
		return query, false
	}
	cone := lineSymbols(lines[gi])
	defs := map[string]string{}
	for i, l := range lines {
		if i == gi || !strings.HasPrefix(l, "(assert (= ") || strings.Contains(l, "(forall ") {
			continue
		}
		rest := l[len("(assert (= "):]
		if k := strings.IndexAny(rest, " )"); k > 0 && !strings.HasPrefix(rest, "(") {
			defs[rest[:k]] = l
		}
	}
	for round := 0; round < 6; round++ {
		grew := false
		for name, l := range defs {
			if cone[name] {
				for s := range lineSymbols(l) {
					if !cone[s] {
						cone[s] = true
						grew = true
					}
				}
				delete(defs, name)
			}
		}
		if !grew {
			break
		}
	}
	// facts about cone symbols: quantifier-free assertions mentioning a (non-hub) cone symbol pull their symbols in, `depth` rounds
	if depth > 0 {
		freq := map[string]int{}
		var qf []map[string]bool
		for i, l := range lines {
			if i == gi || !strings.HasPrefix(l, "(assert ") || strings.Contains(l, "(forall ") || strings.Contains(l, "(exists ") {
				continue
			}
			ls := lineSymbols(l)
			qf = append(qf, ls)
			for s := range ls {
				freq[s]++
			}
		}
		hub := func(s string) bool { return freq[s]*8 > len(qf) && freq[s] > 12 }
		for round := 0; round < depth; round++ {
			add := map[string]bool{}
			for _, ls := range qf {
				hit := false
				for s := range ls {
					if cone[s] && !hub(s) {
						hit = true
						break
					}
				}
				if hit {
					for s := range ls {
						if !cone[s] {
							add[s] = true
						}
					}
				}
			}
			for s := range add {
				cone[s] = true
			}
		}
	}
	var kept []string
	changed := false
	for i, l := range lines {
		if i != gi && strings.HasPrefix(l, "(assert ") && (strings.Contains(l, "(forall ") || strings.Contains(l, "(exists ")) {
			share := false
			for s := range lineSymbols(l) {
				if cone[s] {
					share = true
					break
				}
			}
			if !share {
				changed = true
				continue
			}
		}
		kept = append(kept, l)
	}
	return strings.Join(kept, "\n"), changed
}

// discharge races the full query against its string-free weakening; only the full query's `sat` counts.
func discharge(workdir, name, query string, timeoutS int, seed int) SolverResult {
	relaxed, changed := withoutStrings(query)
	if !changed {
		if _, fch := focused(query, 0); !fch {
			return runSMT(workdir, name, query, timeoutS, seed, nil)
		}
	}
	ctx, cancel := context.WithCancel(context.Background())
	defer cancel()
	type rr struct {
		r    SolverResult
		full bool
	}
	ch := make(chan rr, 4)
	n := 2
	go func() { ch <- rr{runSMTCtx(ctx, workdir, name, query, "(get-model)", timeoutS, seed, nil), true} }()
	go func() { ch <- rr{runSMTCtx(ctx, workdir, name+".nostr", relaxed, "", timeoutS, seed, []string{"z3-new", "cvc5"}), false} }()
	if foc, ch2 := focused(relaxed, 0); ch2 {
		n++
		go func() { ch <- rr{runSMTCtx(ctx, workdir, name+".focus", foc, "", timeoutS, seed, []string{"z3-new", "cvc5"}), false} }()
	}
	if foc, ch2 := focused(query, 2); ch2 {
		n++
		go func() { ch <- rr{runSMTCtx(ctx, workdir, name+".focus2", foc, "", timeoutS, seed, []string{"z3-new", "cvc5"}), false} }()
	}
	var full SolverResult
	haveFull := false
	for i := 0; i < n; i++ {
		x := <-ch
		if x.r.Status == "unsat" {
			if !x.full {
				x.r.Solver += " (weakened premises)"
			}
			return x.r
		}
		if x.full {
			full, haveFull = x.r, true
			if full.Status == "sat" {
				return full
			}
		}
	}
	if haveFull {
		return full
	}
	return SolverResult{Status: "unknown"}
}

func runSMTCtx(parent context.Context, workdir, name, query, post string, timeoutS int, seed int, only []string) SolverResult {
	file := filepath.Join(workdir, fmt.Sprintf("%s.%d.smt2", sanitize(name), atomic.AddInt64(&smtFileSeq, 1)))
	full := "(set-option :produce-models true)\n"
	if seed != 0 {
		full += fmt.Sprintf("(set-option :random-seed %d)\n", seed%100000)
	}
	full += "(set-logic ALL)\n" + query + "\n(check-sat)\n" + post + "\n"
	os.WriteFile(file, []byte(full), 0644)
	ctx, cancel := context.WithCancel(parent)
	defer cancel()
	type res struct {
		solver, status, out string
		ms              int64
	}
	ch := make(chan res, len(solvers))
	var wg sync.WaitGroup
	n := 0
	for _, sc := range solvers {
		if len(only) > 0 {
			ok := false
			for _, o := range only {
				if o == sc.name {
					ok = true
				}
			}
			if !ok {
				continue
			}
		}
		n++
		wg.Add(1)
		go func(sc solverCfg) {
			defer wg.Done()
			solverSem <- struct{}{}
			defer func() { <-solverSem }()
			if ctx.Err() != nil {
				ch <- res{sc.name, "cancelled", "", 0}
				return
			}
			// the time limit is CPU time of the solver process (ulimit -t): a loaded machine makes a proof take longer on
			// the wall clock, it must not make it fail. The wall-clock limits (the solver's own and the context's) are a
			// generous backstop.
			wall := timeoutS * wallFactor
			args := sc.args(file, wall)
			c, cancel2 := context.WithTimeout(ctx, time.Duration(wall+2)*time.Second)
			defer cancel2()
			cmd := exec.CommandContext(c, args[0], args[1:]...)
			var out bytes.Buffer
			cmd.Stdout = &out
			cmd.Stderr = &out
			t0 := time.Now()
			if err := cmd.Start(); err == nil {
				// RLIMIT_CPU on the child (prlimit64): soft = hard = the CPU-time limit in seconds
				lim := [2]uint64{uint64(timeoutS), uint64(timeoutS)}
				syscall.RawSyscall6(syscall.SYS_PRLIMIT64, uintptr(cmd.Process.Pid), 0 /* RLIMIT_CPU */, uintptr(unsafe.Pointer(&lim[0])), 0, 0, 0)
				cmd.Wait()
			}
			ms := time.Since(t0).Milliseconds()
			first := strings.TrimSpace(strings.SplitN(out.String(), "\n", 2)[0])
			st := "error"
			switch {
			case first == "unsat":
				st = "unsat"
			case first == "sat":
				st = "sat"
			case first == "unknown":
				st = "unknown"
			case first == "timeout" || strings.Contains(first, "timeout") || strings.Contains(first, "interrupted"):
				st = "timeout"
			case c.Err() != nil:
				st = "timeout"
			case first == "" || strings.Contains(first, "Killed") || strings.Contains(first, "CPU time limit"):
				st = "timeout" // killed by the CPU-time limit
			}
			ch <- res{sc.name, st, out.String(), ms}
		}(sc)
	}
	go func() { wg.Wait(); close(ch) }()
	final := SolverResult{Status: "unknown", All: map[string]string{}}
	var errOut string
	for r := range ch {
		final.All[r.solver] = r.status
		if r.status == "error" {
			errOut += r.solver + ": " + firstLines(r.out, 3) + "\n"
		}
		if (r.status == "unsat" || r.status == "sat") && final.Status != "unsat" && final.Status != "sat" {
			final.Status, final.Solver, final.Ms, final.Output = r.status, r.solver, r.ms, r.out
			cancel()
		}
	}
	if final.Status == "unknown" {
		allErr := true
		for _, s := range final.All {
			if s != "error" && s != "cancelled" {
				allErr = false
			}
		}
		if allErr {
			final.Status = "error"
		}
		final.Output = errOut
		for _, s := range final.All {
			if s == "timeout" && final.Status != "error" {
				final.Status = "timeout"
			}
		}
	}
	return final
}

func firstLines(s string, n int) string {
	l := strings.Split(s, "\n")
	if len(l) > n {
		l = l[:n]
	}
	return strings.Join(l, " | ")
}

func sanitize(s string) string {
	var b strings.Builder
	for _, r := range s {
		if r >= 'a' && r <= 'z' || r >= 'A' && r <= 'Z' || r >= '0' && r <= '9' || r == '.' || r == '-' || r == '_' {
			b.WriteRune(r)
		} else {
			b.WriteByte('_')
		}
	}
	out := b.String()
	if len(out) > 120 {
		out = out[:120]
	}
	return out
}

// parseModel extracts (define-fun name () Sort value) entries of a model.
func parseModel(out string) map[string]string {
	m := map[string]string{}
	// crude s-expression scan
	i := strings.Index(out, "(define-fun ")
	for i >= 0 {
		rest := out[i+len("(define-fun "):]
		// name
		j := strings.IndexAny(rest, " \n")
		name := rest[:j]
		rest = strings.TrimLeft(rest[j:], " \n")
		if strings.HasPrefix(rest, "()") {
			rest = strings.TrimLeft(rest[2:], " \n")
			// sort: token or parenthesised
			k := skipSexp(rest)
			rest2 := strings.TrimLeft(rest[k:], " \n")
			k2 := skipSexp(rest2)
			val := strings.TrimSpace(rest2[:k2])
			m[strings.Trim(name, "|")] = val
		}
		nx := strings.Index(out[i+1:], "(define-fun ")
		if nx < 0 {
			break
		}
		i = i + 1 + nx
	}
	return m
}

func skipSexp(s string) int {
	if len(s) == 0 {
		return 0
	}
	if s[0] == '"' {
		for i := 1; i < len(s); i++ {
			if s[i] == '"' {
				if i+1 < len(s) && s[i+1] == '"' {
					i++
					continue
				}
				return i + 1
			}
		}
		return len(s)
	}
	if s[0] != '(' {
		i := strings.IndexAny(s, " \n)")
		if i < 0 {
			return len(s)
		}
		return i
	}
	d := 0
	for i := 0; i < len(s); i++ {
		switch s[i] {
		case '"':
			i += skipSexp(s[i:]) - 1
		case '(':
			d++
		case ')':
			d--
			if d == 0 {
				return i + 1
			}
		}
	}
	return len(s)
}
