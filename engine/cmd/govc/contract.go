package main

// Contract files: `//@` comment lines in contracts_verif.go files (build tag verif)
// beside the code, and in /verif/specs/*.spec (trusted stdlib table, prelude).

import (
	"fmt"
	"math/big"
	"os"
	"path/filepath"
	"regexp"
	"sort"
	"strings"
)

func atoiBig(s string) *big.Int {
	v, ok := new(big.Int).SetString(s, 10)
	if !ok {
		return big.NewInt(0)
	}
	return v
}
func powBig(b *big.Int, e int) *big.Int {
	return new(big.Int).Exp(b, big.NewInt(int64(e)), nil)
}

type Clause struct {
	Kind   string // requires ensures proves invariant decreases assert assume
	Label  string // "C01 less.int" (may be empty)
	Props  []string
	Name   string // label without property ids
	Src    string
	E      Expr
	File   string
	Line   int
	Loop   int    // for invariant/decreases
	Callee string // for at-call asserts
	CallK  int    // -1 = every call of callee
}

type LetDef struct {
	Name string
	E    Expr
	Src  string
}

type FuncContract struct {
	Name      string // e.g. valid.validInputSize, valid.(*LRUCache).Store, reflect.(Value).Int
	Params    []string // for external functions: parameter names (receiver first)
	Results   []string // external: result names
	Trusted   bool     // from the stdlib table (not verified)
	Pure      bool
	Lets      []LetDef
	Requires  []*Clause
	Ensures   []*Clause
	Proves    []*Clause
	Modifies  []Expr
	ModAll    bool // modifies * (anything)
	HasMod    bool
	Loops     map[int][]*Clause
	CallAsrt  []*Clause
	NeverCalls []*Clause // never_calls [label] f g: the function contains no call of these callees (syntactic frame for registries)
	Defines   []*Clause // definitional postconditions: name the result as a function of the arguments; assumed at call sites, not provable from the body (determinism), listed as assumptions
	Inline    bool // verify by inlining at call sites (no contract)
	Implements string
	Signature string
	File      string
	Line      int
	NoSafety  bool
	TrustedInRepo bool
	Opaque    bool
}

type SpecFn struct {
	Name   string
	Params [][2]string // name, sort
	Ret    string
	Body   Expr // nil = uninterpreted
	Src    string
}

type GuardDecl struct {
	Type   string
	Mutex  string
	Fields []string
	Props  []string
}

func canonTypeName(n, pkg string) string {
	if strings.Contains(n, ".") || pkg == "" {
		return n
	}
	return pkg + "." + n
}

type PredDef struct {
	Name   string
	Params [][2]string // name, optional Go type name (for field access)
	Body   Expr
}

type GhostVar struct {
	Name string
	Idx  []string
	Val  string
}

type Axiom struct {
	Label string
	E     Expr
	Src   string
}

type Contracts struct {
	Funcs    map[string]*FuncContract
	FuncType map[string]*FuncContract // functype / interface method contracts keyed by name
	Specs    map[string]*SpecFn
	SpecOrd  []string
	Ghosts   map[string]*GhostVar
	Preds    map[string]*PredDef
	Guards   []*GuardDecl
	GhostOrd []string
	Axioms   []*Axiom
	Lemmas   []*Clause
	Regexes  []*RegexSpec
	Raw      []string // raw SMT prelude lines
	Files    []string
}

type RegexSpec struct {
	Label   string
	Props   []string
	Global  string // e.g. valid.PhoneRe
	SpecRe  string // Go regexp syntax for the documented language
	Search  bool   // unanchored search semantics: language = .*spec.*
	Subset  bool   // full-match language of the code's pattern is included in the full-match language of the spec pattern
	File    string
	Line    int
}

var labelRe = regexp.MustCompile(`^\[([^\]]*)\]\s*`)

func splitLabel(s string) (label string, props []string, name string, rest string) {
	m := labelRe.FindStringSubmatch(s)
	if m == nil {
		return "", nil, "", s
	}
	label = m[1]
	var names []string
	for _, f := range strings.Fields(label) {
		if regexp.MustCompile(`^C[0-9]{2,3}$`).MatchString(f) {
			props = append(props, f)
		} else {
			names = append(names, f)
		}
	}
	return label, props, strings.Join(names, " "), s[len(m[0]):]
}

func NewContracts() *Contracts {
	return &Contracts{Funcs: map[string]*FuncContract{}, FuncType: map[string]*FuncContract{}, Specs: map[string]*SpecFn{}, Ghosts: map[string]*GhostVar{}, Preds: map[string]*PredDef{}}
}

// LoadContractFile reads all //@ lines of a file. pkgPrefix is prepended to
// unqualified function names ("valid." for package valid); empty for spec files.
func (c *Contracts) LoadContractFile(path, pkgPrefix string, trusted bool) error {
	data, err := os.ReadFile(path)
	if err != nil {
		return err
	}
	c.Files = append(c.Files, path)
	type line struct {
		txt string
		no  int
	}
	var lines []line
	for i, l := range strings.Split(string(data), "\n") {
		t := strings.TrimSpace(l)
		if strings.HasPrefix(t, "//@") {
			body := strings.TrimPrefix(t, "//@")
			lines = append(lines, line{body, i + 1})
		} else if strings.HasPrefix(t, "// @") { // gofmt rewrites //@ in doc comments
			lines = append(lines, line{strings.TrimPrefix(t, "// @"), i + 1})
		}
	}
	// merge continuation lines: a line whose first token is not a keyword continues the previous one
	keywords := map[string]bool{"func": true, "functype": true, "requires": true, "ensures": true, "proves": true, "defines": true, "never_calls": true, "let": true, "modifies": true,
		"pure": true, "loop": true, "at": true, "spec": true, "ghost": true, "axiom": true, "lemma": true, "regex": true, "pred": true, "type": true, "smt": true,
		"inline": true, "implements": true, "signature": true, "trusted": true, "nosafety": true, "opaque": true, "params": true, "results": true}
	var merged []line
	for _, l := range lines {
		t := strings.TrimSpace(l.txt)
		if t == "" {
			continue
		}
		if i := strings.Index(t, " //"); i >= 0 && !strings.Contains(t[:i], "\"") {
			t = strings.TrimSpace(t[:i])
		}
		first := t
		if i := strings.IndexAny(t, " \t#"); i >= 0 {
			first = t[:i]
		}
		if !keywords[first] && len(merged) > 0 {
			merged[len(merged)-1].txt += " " + t
			continue
		}
		merged = append(merged, line{t, l.no})
	}
	var cur *FuncContract
	for _, l := range merged {
		t := l.txt
		kw := t
		rest := ""
		if i := strings.IndexAny(t, " \t"); i >= 0 {
			kw, rest = t[:i], strings.TrimSpace(t[i+1:])
		}
		mkClause := func(kind, rest string) (*Clause, error) {
			label, props, name, src := splitLabel(rest)
			e, err := ParseExpr(src)
			if err != nil {
				return nil, fmt.Errorf("%s:%d: %v", path, l.no, err)
			}
			return &Clause{Kind: kind, Label: label, Props: props, Name: name, Src: src, E: e, File: path, Line: l.no, CallK: -1}, nil
		}
		switch {
		case kw == "func" || kw == "functype":
			name, params, results := parseFuncHeader(rest)
			if !trusted {
				name = canonName(name, strings.TrimSuffix(pkgPrefix, "."))
			}
			cur = &FuncContract{Name: name, Params: params, Results: results, Trusted: trusted, Loops: map[int][]*Clause{}, File: path, Line: l.no}
			if kw == "functype" {
				c.FuncType[name] = cur
			} else {
				if _, dup := c.Funcs[name]; dup {
					return fmt.Errorf("%s:%d: duplicate contract for %s", path, l.no, name)
				}
				c.Funcs[name] = cur
			}
		case kw == "requires" || kw == "ensures" || kw == "proves" || kw == "defines":
			if cur == nil {
				return fmt.Errorf("%s:%d: %s outside func", path, l.no, kw)
			}
			cl, err := mkClause(kw, rest)
			if err != nil {
				return err
			}
			switch kw {
			case "requires":
				cur.Requires = append(cur.Requires, cl)
			case "ensures":
				cur.Ensures = append(cur.Ensures, cl)
			case "defines":
				cur.Defines = append(cur.Defines, cl)
			case "proves":
				cur.Proves = append(cur.Proves, cl)
			}
		case kw == "let":
			if cur == nil {
				return fmt.Errorf("%s:%d: let outside func", path, l.no)
			}
			i := strings.Index(rest, "=")
			if i < 0 {
				return fmt.Errorf("%s:%d: bad let", path, l.no)
			}
			e, err := ParseExpr(strings.TrimSpace(rest[i+1:]))
			if err != nil {
				return fmt.Errorf("%s:%d: %v", path, l.no, err)
			}
			cur.Lets = append(cur.Lets, LetDef{strings.TrimSpace(rest[:i]), e, rest[i+1:]})
		case kw == "modifies":
			cur.HasMod = true
			if rest == "*" {
				cur.ModAll = true
			} else if rest != "nothing" {
				for _, part := range splitTopLevel(rest, ',') {
					e, err := ParseExpr(part)
					if err != nil {
						return fmt.Errorf("%s:%d: %v", path, l.no, err)
					}
					cur.Modifies = append(cur.Modifies, e)
				}
			}
		case kw == "never_calls":
			// never_calls [label] f g ...
			lab, rest2 := "", rest
			if strings.HasPrefix(rest, "[") {
				if k := strings.Index(rest, "]"); k > 0 {
					lab, rest2 = rest[:k+1], strings.TrimSpace(rest[k+1:])
				}
			}
			cl, err := mkClause("never_calls", lab+" true")
			if err != nil {
				return err
			}
			cl.Src = "never calls " + rest2
			cl.Callee = rest2
			cur.NeverCalls = append(cur.NeverCalls, cl)
		case kw == "pure":
			cur.Pure = true
		case kw == "trusted":
			cur.Trusted = true // in-repo function whose body is outside the verifier's reach (unsafe): contract assumed, listed in evidence
			cur.TrustedInRepo = true
		case kw == "inline":
			cur.Inline = true
		case kw == "nosafety":
			cur.NoSafety = true
		case kw == "opaque":
			cur.Opaque = true
		case kw == "implements":
			cur.Implements = rest
		case kw == "signature":
			cur.Signature = rest
		case strings.HasPrefix(kw, "loop#"):
			var k int
			fmt.Sscanf(kw, "loop#%d", &k)
			sub := rest
			kind := "invariant"
			if strings.HasPrefix(sub, "invariant") {
				sub = strings.TrimSpace(strings.TrimPrefix(sub, "invariant"))
			} else if strings.HasPrefix(sub, "decreases") {
				kind = "decreases"
				sub = strings.TrimSpace(strings.TrimPrefix(sub, "decreases"))
			} else if strings.HasPrefix(sub, "exhaustive") {
				// loop#k exhaustive [label]: the loop is left only through its own condition (no break, no return inside)
				kind = "exhaustive"
				sub = strings.TrimSpace(strings.TrimPrefix(sub, "exhaustive"))
				if !strings.Contains(sub, "]") || strings.HasSuffix(sub, "]") {
					sub += " true"
				}
			} else if strings.HasPrefix(sub, "entered_when") {
				// loop#k entered_when [label] expr: whenever expr holds (in the state just before the loop) execution
				// reaches the loop head — no early return or skipped branch in front of the traversal
				kind = "entered_when"
				sub = strings.TrimSpace(strings.TrimPrefix(sub, "entered_when"))
			} else {
				return fmt.Errorf("%s:%d: loop clause must be invariant, decreases, exhaustive or entered_when", path, l.no)
			}
			cl, err := mkClause(kind, sub)
			if err != nil {
				return err
			}
			cl.Loop = k
			cur.Loops[k] = append(cur.Loops[k], cl)
		case kw == "at":
			// at call <callee>#k assert [label] expr
			f := strings.Fields(rest)
			if len(f) < 4 || f[0] != "call" || (f[2] != "assert" && f[2] != "reached_when") {
				return fmt.Errorf("%s:%d: expected 'at call <callee>#k assert|reached_when ...'", path, l.no)
			}
			callee := f[1]
			k := -1
			if i := strings.LastIndex(callee, "#"); i >= 0 {
				if callee[i+1:] != "*" {
					fmt.Sscanf(callee[i+1:], "%d", &k)
				}
				callee = callee[:i]
			}
			idx := strings.Index(rest, f[2])
			cl, err := mkClause(f[2], strings.TrimSpace(rest[idx+len(f[2]):]))
			if err != nil {
				return err
			}
			cl.Callee, cl.CallK = callee, k
			cur.CallAsrt = append(cur.CallAsrt, cl)
		case kw == "spec":
			sf, err := parseSpecDecl(rest)
			if err != nil {
				return fmt.Errorf("%s:%d: %v", path, l.no, err)
			}
			if _, dup := c.Specs[sf.Name]; dup {
				return fmt.Errorf("%s:%d: duplicate spec %s", path, l.no, sf.Name)
			}
			c.Specs[sf.Name] = sf
			c.SpecOrd = append(c.SpecOrd, sf.Name)
			cur = nil
		case kw == "type":
			// type T guarded_by mu : f1, f2 [props C10 C11]
			f := strings.Fields(strings.ReplaceAll(strings.ReplaceAll(rest, ",", " "), ":", " "))
			if len(f) < 4 || f[1] != "guarded_by" {
				return fmt.Errorf("%s:%d: expected 'type T guarded_by mu : fields'", path, l.no)
			}
			gd := &GuardDecl{Type: canonTypeName(f[0], strings.TrimSuffix(pkgPrefix, ".")), Mutex: f[2]}
			for _, x := range f[3:] {
				if regexp.MustCompile(`^C[0-9]{2,3}$`).MatchString(x) {
					gd.Props = append(gd.Props, x)
				} else if x != "props" {
					gd.Fields = append(gd.Fields, x)
				}
			}
			c.Guards = append(c.Guards, gd)
			cur = nil
		case kw == "pred":
			// pred name(p1, p2) = expr   — state-dependent macro, expanded at each use
			i := strings.Index(rest, "(")
			j := strings.Index(rest, ")")
			k := strings.Index(rest, "=")
			if i < 0 || j < i || k < j {
				return fmt.Errorf("%s:%d: bad pred", path, l.no)
			}
			pd := &PredDef{Name: strings.TrimSpace(rest[:i])}
			for _, p := range strings.Split(rest[i+1:j], ",") {
				f := strings.Fields(p)
				if len(f) == 1 {
					pd.Params = append(pd.Params, [2]string{f[0], ""})
				} else if len(f) == 2 {
					pd.Params = append(pd.Params, [2]string{f[0], f[1]})
				}
			}
			e, err := ParseExpr(strings.TrimSpace(rest[k+1:]))
			if err != nil {
				return fmt.Errorf("%s:%d: %v", path, l.no, err)
			}
			pd.Body = e
			c.Preds[pd.Name] = pd
			cur = nil
		case kw == "ghost":
			// ghost name(Sort, Sort) Sort
			i := strings.Index(rest, "(")
			j := strings.LastIndex(rest, ")")
			if i < 0 || j < i {
				return fmt.Errorf("%s:%d: bad ghost decl", path, l.no)
			}
			g := &GhostVar{Name: strings.TrimSpace(rest[:i]), Val: strings.TrimSpace(rest[j+1:])}
			for _, s := range strings.Split(rest[i+1:j], ",") {
				if s = strings.TrimSpace(s); s != "" {
					g.Idx = append(g.Idx, s)
				}
			}
			c.Ghosts[g.Name] = g
			c.GhostOrd = append(c.GhostOrd, g.Name)
			cur = nil
		case kw == "axiom":
			label, _, _, src := splitLabel(rest)
			e, err := ParseExpr(src)
			if err != nil {
				return fmt.Errorf("%s:%d: %v", path, l.no, err)
			}
			c.Axioms = append(c.Axioms, &Axiom{label, e, src})
			cur = nil
		case kw == "lemma":
			cl, err := mkClause("lemma", rest)
			if err != nil {
				return err
			}
			c.Lemmas = append(c.Lemmas, cl)
			cur = nil
		case kw == "regex":
			// regex [C05 language.PhoneRe] valid.PhoneRe == `^1[3-9][0-9]{9}$`   (or  ~= for search semantics)
			label, props, _, src := splitLabel(rest)
			search := false
			subset := false
			i := strings.Index(src, "==")
			if i < 0 {
				i = strings.Index(src, "~=")
				search = true
			}
			if i < 0 {
				// G << `pattern`: every string the regexp matches ENTIRELY (an element of FindAll...) is entirely matched by pattern
				i = strings.Index(src, "<<")
				search = false
				subset = i >= 0
			}
			if i < 0 {
				return fmt.Errorf("%s:%d: bad regex clause", path, l.no)
			}
			re := strings.TrimSpace(src[i+2:])
			re = strings.Trim(re, "`")
			g := strings.TrimSpace(src[:i])
			if !strings.Contains(g, ".") {
				g = pkgPrefix + g
			}
			c.Regexes = append(c.Regexes, &RegexSpec{Label: label, Props: props, Global: g, SpecRe: re, Search: search, Subset: subset, File: path, Line: l.no})
			cur = nil
		case kw == "smt":
			c.Raw = append(c.Raw, rest)
			cur = nil
		default:
			return fmt.Errorf("%s:%d: unknown contract keyword %q", path, l.no, kw)
		}
	}
	return nil
}

// parseFuncHeader: "name" or "name(p1, p2) (r1, r2)"
func parseFuncHeader(s string) (name string, params, results []string) {
	s = strings.TrimSpace(s)
	// method names start with "(" e.g. (*LRUCache).Store or reflect.(Value).Int(v) (r)
	// find the parameter list: the last "(" group(s) after the name's final identifier.
	depth := 0
	nameEnd := len(s)
	for i := 0; i < len(s); i++ {
		switch s[i] {
		case '(':
			if depth == 0 && i > 0 && isIdentChar(s[i-1]) {
				nameEnd = i
				goto done
			}
			depth++
		case ')':
			depth--
		}
	}
done:
	name = strings.TrimSpace(s[:nameEnd])
	rest := strings.TrimSpace(s[nameEnd:])
	grab := func(r string) ([]string, string) {
		if !strings.HasPrefix(r, "(") {
			return nil, r
		}
		j := strings.Index(r, ")")
		var out []string
		for _, p := range strings.Split(r[1:j], ",") {
			if p = strings.TrimSpace(p); p != "" {
				out = append(out, p)
			}
		}
		return out, strings.TrimSpace(r[j+1:])
	}
	params, rest = grab(rest)
	results, _ = grab(rest)
	return
}

// canonName qualifies an unqualified function or method name with the package's short name:
// To -> valid.To, (*LRUCache).Store -> (*valid.LRUCache).Store
func canonName(name, pkg string) string {
	if pkg == "" {
		return name
	}
	if strings.HasPrefix(name, "(") {
		j := strings.Index(name, ")")
		inner := name[1:j]
		star := ""
		if strings.HasPrefix(inner, "*") {
			star, inner = "*", inner[1:]
		}
		if !strings.Contains(inner, ".") {
			inner = pkg + "." + inner
		}
		return "(" + star + inner + ")" + name[j+1:]
	}
	if !strings.Contains(name, ".") {
		return pkg + "." + name
	}
	return name
}

func isIdentChar(c byte) bool {
	return c == '_' || c == '$' || c >= '0' && c <= '9' || c >= 'a' && c <= 'z' || c >= 'A' && c <= 'Z'
}

func splitTopLevel(s string, sep byte) []string {
	var out []string
	depth := 0
	inStr := false
	start := 0
	for i := 0; i < len(s); i++ {
		c := s[i]
		if inStr {
			if c == '\\' {
				i++
			} else if c == '"' {
				inStr = false
			}
			continue
		}
		switch c {
		case '"':
			inStr = true
		case '(', '[':
			depth++
		case ')', ']':
			depth--
		default:
			if c == sep && depth == 0 {
				out = append(out, strings.TrimSpace(s[start:i]))
				start = i + 1
			}
		}
	}
	if t := strings.TrimSpace(s[start:]); t != "" {
		out = append(out, t)
	}
	return out
}

// spec name(a Sort, b Sort) Sort [= expr]
func parseSpecDecl(s string) (*SpecFn, error) {
	i := strings.Index(s, "(")
	if i < 0 {
		return nil, fmt.Errorf("bad spec decl %q", s)
	}
	depth := 0
	j := -1
	for k := i; k < len(s); k++ {
		if s[k] == '(' {
			depth++
		} else if s[k] == ')' {
			depth--
			if depth == 0 {
				j = k
				break
			}
		}
	}
	if j < 0 {
		return nil, fmt.Errorf("bad spec decl %q", s)
	}
	sf := &SpecFn{Name: strings.TrimSpace(s[:i]), Src: s}
	for _, p := range splitTopLevel(s[i+1:j], ',') {
		f := strings.Fields(p)
		if len(f) != 2 {
			return nil, fmt.Errorf("bad spec param %q", p)
		}
		sf.Params = append(sf.Params, [2]string{f[0], f[1]})
	}
	rest := strings.TrimSpace(s[j+1:])
	if k := strings.Index(rest, "="); k >= 0 {
		sf.Ret = strings.TrimSpace(rest[:k])
		e, err := ParseExpr(strings.TrimSpace(rest[k+1:]))
		if err != nil {
			return nil, err
		}
		sf.Body = e
	} else {
		sf.Ret = rest
	}
	if sf.Ret == "" {
		return nil, fmt.Errorf("spec %s: missing result sort", sf.Name)
	}
	return sf, nil
}

// LoadAllContracts loads the prelude/stdlib tables from specDir and the
// guarded contract files from the repository.
func LoadAllContracts(repo, specDir string) (*Contracts, error) {
	c := NewContracts()
	specs, _ := filepath.Glob(filepath.Join(specDir, "*.spec"))
	sort.Strings(specs)
	for _, f := range specs {
		if err := c.LoadContractFile(f, "", true); err != nil {
			return nil, err
		}
	}
	for _, pk := range [][2]string{{"valid", "valid."}, {"valid/internal", "internal."}, {"file", "file."}, {".", "main."}, {"log", "log."}} {
		f := filepath.Join(repo, pk[0], "contracts_verif.go")
		if _, err := os.Stat(f); err == nil {
			if err := c.LoadContractFile(f, pk[1], false); err != nil {
				return nil, err
			}
		}
	}
	return c, nil
}
