package main

import (
	"fmt"
	"go/constant"
	"go/types"
	"os"
	"path/filepath"
	"sort"
	"strings"
	"sync"

	"golang.org/x/tools/go/packages"
	"golang.org/x/tools/go/ssa"
	"golang.org/x/tools/go/ssa/ssautil"
)

type Verifier struct {
	repo    string
	specDir string
	prog    *ssa.Program
	pkgs    []*ssa.Package
	ppkgs   []*packages.Package
	ct      *Contracts
	te      *TypeEnv
	sorts   map[string]Sort
	funcs   map[string]*ssa.Function // canonical name -> function
	inlOnly map[*ssa.Function]bool
	renames map[string]map[string][]string // funcDeclKey -> old local name -> new names (alpha-renamed since the baseline)
	fids    map[*ssa.Function]int
	gids    map[string]int
	mu      sync.Mutex
	initOnlyGlobals map[string]bool // state var names of globals assigned only in init
	nonNilGlobals   map[string]bool
	errNewGlobals   map[string]bool // init-only globals whose initialiser is errors.New(...)
	globalSorts     map[string]Sort
	regexGlobals    map[string]string // state var name -> pattern
}

func loadVerifier(repo, specDir string) (*Verifier, error) {
	cfg := &packages.Config{
		Mode:       packages.LoadAllSyntax,
		Dir:        repo,
		BuildFlags: []string{"-tags=verif"},
		Env:        append(os.Environ(), "GOFLAGS=-mod=mod", "GOPROXY=off", "GOSUMDB=off", "GOTOOLCHAIN=local"),
	}
	initial, err := packages.Load(cfg, "./valid", "./valid/internal", "./file", ".")
	if err != nil {
		return nil, err
	}
	for _, p := range initial {
		if len(p.Errors) > 0 {
			return nil, fmt.Errorf("package %s: %v", p.PkgPath, p.Errors[0])
		}
	}
	prog, pkgs := ssautil.AllPackages(initial, ssa.GlobalDebug)
	prog.Build()
	v := &Verifier{repo: repo, specDir: specDir, prog: prog, te: NewTypeEnv(), sorts: map[string]Sort{},
		funcs: map[string]*ssa.Function{}, fids: map[*ssa.Function]int{}, gids: map[string]int{}, ppkgs: initial}
	for _, p := range pkgs {
		if p != nil {
			v.pkgs = append(v.pkgs, p)
		}
	}
	for fn := range ssautil.AllFunctions(prog) {
		if fn.Pkg == nil || !v.inRepo(fn) {
			continue
		}
		v.funcs[v.funcName(fn)] = fn
	}
	ct, err := LoadAllContracts(repo, specDir)
	if err != nil {
		return nil, err
	}
	v.ct = ct
	v.renames = loadRenames(repo, filepath.Join(filepath.Dir(specDir), "baseline"))
	v.analyseGlobals()
	return v, nil
}

// analyseGlobals finds package-level variables that are stored only by the package initialiser.
// Their value is fixed afterwards; when the stored value is the result of a constructor that never
// returns nil (MustCompile, errors.New, make, &T{}, NewLRU, reflect.TypeOf of a non-nil value)
// the variable is known to be non-nil.
func (v *Verifier) analyseGlobals() {
	v.initOnlyGlobals = map[string]bool{}
	v.nonNilGlobals = map[string]bool{}
	v.errNewGlobals = map[string]bool{}
	v.globalSorts = map[string]Sort{}
	v.regexGlobals = map[string]string{}
	written := map[*ssa.Global]bool{}
	initVal := map[*ssa.Global]ssa.Value{}
	multi := map[*ssa.Global]bool{}
	var rootGlobal func(a ssa.Value) *ssa.Global
	rootGlobal = func(a ssa.Value) *ssa.Global {
		switch x := a.(type) {
		case *ssa.Global:
			return x
		case *ssa.FieldAddr:
			return rootGlobal(x.X)
		case *ssa.IndexAddr:
			return rootGlobal(x.X)
		}
		return nil
	}
	for fn := range ssautil.AllFunctions(v.prog) {
		if fn.Pkg == nil && fn.Parent() == nil {
			continue
		}
		if !v.inRepo(fn) {
			continue
		}
		isInit := fn.Name() == "init" && fn.Parent() == nil
		for _, b := range fn.Blocks {
			for _, in := range b.Instrs {
				st, ok := in.(*ssa.Store)
				if !ok {
					continue
				}
				g := rootGlobal(st.Addr)
				if g == nil {
					continue
				}
				if !isInit {
					written[g] = true
					continue
				}
				if _, direct := st.Addr.(*ssa.Global); direct {
					if _, seen := initVal[g]; seen {
						multi[g] = true
					}
					initVal[g] = st.Val
				}
			}
		}
	}
	e := &enc{v: v, te: v.te, sorts: v.sorts}
	for _, p := range v.pkgs {
		if !strings.HasPrefix(p.Pkg.Path(), strings.TrimSuffix(modPath, "/")) {
			continue
		}
		for _, m := range p.Members {
			g, ok := m.(*ssa.Global)
			if !ok || written[g] {
				continue
			}
			name := e.globalName(g)
			v.initOnlyGlobals[name] = true
			v.globalSorts[name] = v.te.SortOf(g.Type().(*types.Pointer).Elem())
			val, has := initVal[g]
			if !has || multi[g] {
				continue
			}
			switch x := val.(type) {
			case *ssa.Call:
				if f := x.Common().StaticCallee(); f != nil {
					switch f.String() {
					case "regexp.MustCompile":
						v.nonNilGlobals[name] = true
						if c, ok := x.Common().Args[0].(*ssa.Const); ok && c.Value != nil {
							v.regexGlobals[name] = constantString(c)
						}
					case "errors.New", "container/list.New":
						v.nonNilGlobals[name] = true
						if f.String() == "errors.New" {
							v.errNewGlobals[name] = true
						}
					case "reflect.TypeOf":
						if mi, ok := x.Common().Args[0].(*ssa.MakeInterface); ok {
							_ = mi
							v.nonNilGlobals[name] = true
						}
					}
					if v.inRepo(f) && f.Name() == "NewLRU" {
						v.nonNilGlobals[name] = true
					}
				}
			case *ssa.MakeMap, *ssa.Alloc, *ssa.MakeSlice:
				v.nonNilGlobals[name] = true
			case *ssa.MakeInterface:
				v.nonNilGlobals[name] = true
			}
		}
	}
}

func constantString(c *ssa.Const) string {
	if c.Value.Kind() == constant.String {
		return constant.StringVal(c.Value)
	}
	return ""
}

// functypeFor: the declared function type (functype contract) whose signature fn has, if any.
func (v *Verifier) functypeFor(fn *ssa.Function) *FuncContract {
	if fn.Signature.Recv() != nil || fn.Parent() != nil {
		return nil
	}
	for name, ft := range v.ct.FuncType {
		t := v.lookupType(name)
		if t == nil {
			continue
		}
		if sig, ok := t.Underlying().(*types.Signature); ok && types.Identical(sig, fn.Signature) {
			return ft
		}
	}
	return nil
}

func (v *Verifier) inRepo(fn *ssa.Function) bool {
	p := fn.Pkg
	if p == nil && fn.Parent() != nil {
		p = fn.Parent().Pkg
	}
	if p == nil {
		return false
	}
	path := p.Pkg.Path()
	return strings.HasPrefix(path, modPath) || path == strings.TrimSuffix(modPath, "/")
}

// funcName: canonical name used in contract files: valid.To, (*valid.LRUCache).Store, valid.In$1
func (v *Verifier) funcName(fn *ssa.Function) string {
	s := fn.String()
	s = strings.ReplaceAll(s, modPath+"valid/internal", "internal")
	s = strings.ReplaceAll(s, modPath, "")
	s = strings.ReplaceAll(s, strings.TrimSuffix(modPath, "/"), "main")
	return s
}

func (v *Verifier) calleeName(c *ssa.CallCommon) string {
	if c.IsInvoke() {
		s := c.Method.FullName()
		s = strings.ReplaceAll(s, modPath+"valid/internal", "internal")
		s = strings.ReplaceAll(s, modPath, "")
		return s
	}
	if f := c.StaticCallee(); f != nil {
		return v.funcName(f)
	}
	// dynamic call: named function type, else signature
	t := c.Value.Type()
	if n, ok := t.(*types.Named); ok {
		return "functype:" + typeName(n)
	}
	return "functype:" + typeName(t)
}

// contractForCall returns the contract that governs a call (nil: unknown callee).
func (v *Verifier) contractForCall(c *ssa.CallCommon) (*FuncContract, *ssa.Function) {
	name := v.calleeName(c)
	if strings.HasPrefix(name, "functype:") {
		tn := strings.TrimPrefix(name, "functype:")
		if ft, ok := v.ct.FuncType[tn]; ok {
			return ft, nil
		}
		for _, ft := range v.ct.FuncType {
			if ft.Signature != "" && ft.Signature == tn {
				return ft, nil
			}
		}
		return nil, nil
	}
	callee := c.StaticCallee()
	if fc, ok := v.ct.Funcs[name]; ok {
		return fc, callee
	}
	return nil, callee
}

func (v *Verifier) findFunc(name string) *ssa.Function {
	if f, ok := v.funcs[name]; ok {
		return f
	}
	for _, pk := range []string{"valid", "internal", "file", "main"} {
		if f, ok := v.funcs[canonName(name, pk)]; ok {
			return f
		}
	}
	return nil
}

func (v *Verifier) funcID(f *ssa.Function) int {
	v.mu.Lock()
	defer v.mu.Unlock()
	if id, ok := v.fids[f]; ok {
		return id
	}
	// stable ids: by sorted name position
	id := 1000 + len(v.fids)
	v.fids[f] = id
	return id
}

func (v *Verifier) globalID(name string) int {
	v.mu.Lock()
	defer v.mu.Unlock()
	if id, ok := v.gids[name]; ok {
		return id
	}
	id := -(1 + len(v.gids)) // globals live at negative addresses: never equal to allocated references
	v.gids[name] = id
	return id
}

func (v *Verifier) lookupType(name string) types.Type {
	switch name {
	case "string":
		return types.Typ[types.String]
	case "int":
		return types.Typ[types.Int]
	case "int8":
		return types.Typ[types.Int8]
	case "int16":
		return types.Typ[types.Int16]
	case "int32":
		return types.Typ[types.Int32]
	case "int64":
		return types.Typ[types.Int64]
	case "uint":
		return types.Typ[types.Uint]
	case "uint8":
		return types.Typ[types.Uint8]
	case "uint16":
		return types.Typ[types.Uint16]
	case "uint32":
		return types.Typ[types.Uint32]
	case "uint64":
		return types.Typ[types.Uint64]
	case "float32":
		return types.Typ[types.Float32]
	case "float64":
		return types.Typ[types.Float64]
	case "bool":
		return types.Typ[types.Bool]
	case "[]byte":
		return types.NewSlice(types.Universe.Lookup("byte").Type()) // the alias, so that the tag is the one of a `[]byte` case in the code
	}
	if strings.HasPrefix(name, "[]") {
		if t := v.lookupType(name[2:]); t != nil {
			return types.NewSlice(t)
		}
		return nil
	}
	if strings.HasPrefix(name, "*") {
		if t := v.lookupType(name[1:]); t != nil {
			return types.NewPointer(t)
		}
		return nil
	}
	if i := strings.LastIndex(name, "."); i >= 0 {
		pk, tn := name[:i], name[i+1:]
		for _, p := range v.prog.AllPackages() {
			if shortPkg(p.Pkg.Path()) == pk || p.Pkg.Path() == pk {
				if o := p.Pkg.Scope().Lookup(tn); o != nil {
					return o.Type()
				}
			}
		}
	}
	return nil
}

func (v *Verifier) safetyPropsFor(fn *ssa.Function) []string {
	p := fn.Pkg
	if p == nil && fn.Parent() != nil {
		p = fn.Parent().Pkg
	}
	if p == nil {
		return []string{"C13"}
	}
	switch shortPkg(p.Pkg.Path()) {
	case "file", "main":
		return []string{"C19"}
	case "valid", "internal":
		return []string{"C13"}
	}
	return nil // package log: no listed property depends on its safety
}

// ---------------------------------------------------------------------------
// queries

func (o *Obligation) BuildQuery() string {
	e := o.enc
	var b strings.Builder
	b.WriteString(smtPrelude)
	for _, d := range e.te.decls {
		b.WriteString(d)
		b.WriteByte('\n')
	}
	// which dynamic types (interface tags) are comparable: == on two interfaces of an uncomparable dynamic type,
	// and using one as a map key, panics at run time
	e.v.mu.Lock()
	for i, t := range e.te.tagTypes {
		fmt.Fprintf(&b, "(assert (= (comparableTag %d) %v))\n", i+1, types.Comparable(t))
	}
	e.v.mu.Unlock()
	for _, r := range e.v.ct.Raw {
		b.WriteString(r)
		b.WriteByte('\n')
	}
	for _, d := range e.decls {
		b.WriteString(d)
		b.WriteByte('\n')
	}
	for _, l := range e.body[:o.nBody] {
		b.WriteString(l)
		b.WriteByte('\n')
	}
	if o.Cover {
		b.WriteString("(assert " + o.Goal + ")\n")
	} else {
		b.WriteString("(assert (not " + o.Goal + "))\n")
	}
	return b.String()
}

// Functions under contract, in a stable order.
func (v *Verifier) contractedFuncs() []string {
	var names []string
	for n, fc := range v.ct.Funcs {
		if fc.Trusted {
			continue
		}
		names = append(names, n)
	}
	sort.Strings(names)
	return names
}

func tmpWorkdir() string {
	d, err := os.MkdirTemp("", "govc-")
	if err != nil {
		panic(err)
	}
	return d
}

func writeFile(path, content string) {
	os.MkdirAll(filepath.Dir(path), 0755)
	os.WriteFile(path, []byte(content), 0644)
}

// runCover decides a reachability query: "sat" (reachable), "unsat" (dead or contradictory premises),
// "sat-relaxed" (the quantifier-free relaxation is satisfiable; the full query was not decided), "unknown".
// The quantifier-free relaxation goes first: it is fast, and its unsat is definitive (fewer premises).
func runCover(o *Obligation, work string, seed int, fullTimeout int) string {
	q := o.BuildQuery()
	var kept []string
	quant := false
	for _, l := range strings.Split(q, "\n") {
		if strings.Contains(l, "(forall ") || strings.Contains(l, "(exists ") {
			// definitional axioms of the encoding (sidx, box/unbox, bytes2str) are conservative extensions:
			// a model of the rest extends to them
			if !(strings.Contains(l, "(sidx o i)") || strings.Contains(l, "(unbox.") && strings.Contains(l, ":pattern ((box.") || strings.Contains(l, "(bytes2str a o n)")) {
				quant = true
			}
			continue
		}
		kept = append(kept, l)
	}
	r := runSMTPost(work, o.Name+".qf", strings.Join(kept, "\n"), "", 6, seed, []string{"z3-new", "cvc5"})
	if r.Status == "unsat" {
		return "unsat"
	}
	if r.Status == "sat" && !quant {
		return "sat"
	}
	relaxed := r.Status == "sat"
	r = runSMTPost(work, o.Name, q, "", fullTimeout, seed, []string{"z3-new"})
	if r.Status == "sat" || r.Status == "unsat" {
		return r.Status
	}
	if relaxed {
		return "sat-relaxed"
	}
	return "unknown"
}
