package main

// Translation of contract expressions to SMT terms in an environment.

import (
	"fmt"
	"os"
	"go/constant"
	"go/types"
	"strings"
)

func (env *Env) withState(cur map[string]string) *Env {
	c := *env
	c.cur = cur
	return &c
}

func (env *Env) bind(name string, v Val) *Env {
	c := *env
	c.bound = map[string]Val{}
	for k, x := range env.bound {
		c.bound[k] = x
	}
	c.bound[name] = v
	return &c
}

type trErr string

func (e *enc) trFail(f string, a ...interface{}) { panic(trErr(fmt.Sprintf(f, a...))) }

// trBool translates a clause; on failure records an error and returns "false" (never silently true).
func (e *enc) trBool(x Expr, env *Env, what string) (res string) {
	defer func() {
		if r := recover(); r != nil {
			if te, ok := r.(trErr); ok {
				e.errf("%s: %s: cannot translate %s: %s", e.name, what, x.String(), string(te))
				res = "false"
				return
			}
			panic(r)
		}
	}()
	v := e.tr(x, env)
	if v.S != "Bool" {
		e.trFail("clause is not boolean (sort %s)", v.S)
	}
	return v.T
}

func (e *enc) trVal(x Expr, env *Env, what string) (res Val, ok bool) {
	defer func() {
		if r := recover(); r != nil {
			if te, isTr := r.(trErr); isTr {
				e.errf("%s: %s: cannot translate %s: %s", e.name, what, x.String(), string(te))
				ok = false
				return
			}
			panic(r)
		}
	}()
	return e.tr(x, env), true
}

func sortFromName(n string) Sort {
	switch n {
	case "Int", "Ref", "Kind":
		return "Int"
	case "Bool", "String", "Real", "RVal", "RType", "Iface", "Slice", "Any":
		return n
	case "IntSet":
		return "(Array Int Bool)"
	case "StrArr":
		return "(Array Int String)"
	case "IntArr":
		return "(Array Int Int)"
	case "StrHeap":
		return "(Array Int (Array Int String))"
	}
	return n
}

func coerce(a, b Val) (Val, Val) {
	if a.S == "Real" && b.S == "Int" {
		b = Val{T: "(to_real " + b.T + ")", S: "Real"}
	} else if a.S == "Int" && b.S == "Real" {
		a = Val{T: "(to_real " + a.T + ")", S: "Real"}
	}
	return a, b
}

func (e *enc) nilOf(other Val) string {
	switch other.S {
	case "Int":
		return "0"
	case "Slice":
		return "nilslice"
	case "Iface":
		return "niliface"
	case "RType":
		return "rt.nil"
	}
	e.trFail("nil compared with sort %s", other.S)
	return ""
}

func (e *enc) eqVals(a, b Val) string {
	if a.S == "Slice" && b.T == "nilslice" {
		return "(= (s-ptr " + a.T + ") 0)"
	}
	if b.S == "Slice" && a.T == "nilslice" {
		return "(= (s-ptr " + b.T + ") 0)"
	}
	if a.S == "Iface" && b.T == "niliface" {
		return "(= (i-tag " + a.T + ") 0)"
	}
	if b.S == "Iface" && a.T == "niliface" {
		return "(= (i-tag " + b.T + ") 0)"
	}
	a, b = coerce(a, b)
	if a.S != b.S {
		e.trFail("comparison of sorts %s and %s (%s, %s)", a.S, b.S, a.T, b.T)
	}
	return eq(a.T, b.T)
}

func (e *enc) tr(x Expr, env *Env) Val {
	switch n := x.(type) {
	case *EInt:
		return Val{T: smtInt(n.V), S: "Int"}
	case *EStr:
		return Val{T: smtStr(n.V), S: "String"}
	case *EBool:
		if n.V {
			return Val{T: "true", S: "Bool"}
		}
		return Val{T: "false", S: "Bool"}
	case *ENil:
		return Val{T: "nil", S: "Nil"}
	case *EIdent:
		return e.trIdent(n.Name, env)
	case *EUnary:
		v := e.tr(n.X, env)
		switch n.Op {
		case "!":
			if v.S != "Bool" {
				e.trFail("! on %s", v.S)
			}
			return Val{T: not(v.T), S: "Bool"}
		case "-":
			return Val{T: "(- " + v.T + ")", S: v.S}
		}
	case *EBinary:
		return e.trBinary(n, env)
	case *ECall:
		return e.trCall(n, env)
	case *EIndex:
		v := e.tr(n.X, env)
		i := e.tr(n.I, env)
		switch {
		case v.S == "String":
			return Val{T: "(str.to_code (str.at " + v.T + " " + i.T + "))", S: "Int"}
		case v.S == "Slice":
			var et types.Type
			if v.GT != nil {
				if sl, ok := v.GT.Underlying().(*types.Slice); ok {
					et = sl.Elem()
				}
			}
			if et == nil {
				e.trFail("index of slice with unknown element type: %s", n.X)
			}
			es := e.te.SortOf(et)
			return Val{T: sel(e.getIn(env.cur, e.memName(es)), "(s-ptr "+v.T+")", "(sidx (s-off "+v.T+") "+i.T+")"), S: es, GT: et}
		case strings.HasPrefix(v.S, "(Array "):
			// (Array K V)
			vs := arrayValSort(v.S)
			var et types.Type
			if v.GT != nil {
				if a, ok := v.GT.Underlying().(*types.Array); ok {
					et = a.Elem()
				}
			}
			return Val{T: sel(v.T, i.T), S: vs, GT: et}
		case v.GT != nil:
			if m, ok := v.GT.Underlying().(*types.Map); ok {
				_, val, _, _, vs := e.mapNames(m)
				return Val{T: sel(e.getIn(env.cur, val), v.T, i.T), S: vs, GT: m.Elem()}
			}
		}
		e.trFail("cannot index %s (sort %s)", n.X, v.S)
	case *ESlice:
		v := e.tr(n.X, env)
		if v.S != "String" {
			e.trFail("slice expression on sort %s", v.S)
		}
		lo := "0"
		if n.Lo != nil {
			lo = e.tr(n.Lo, env).T
		}
		hi := "(str.len " + v.T + ")"
		if n.Hi != nil {
			hi = e.tr(n.Hi, env).T
		}
		return Val{T: "(str.substr " + v.T + " " + lo + " (- " + hi + " " + lo + "))", S: "String"}
	case *EField:
		if id, ok := n.X.(*EIdent); ok {
			full := id.Name + "." + n.Name
			_, isBound := env.bound[id.Name]
			_, isVar := env.vars[id.Name]
			if !isBound && !isVar {
				// package-qualified name (valid.cacheStructType): the package-level object, whatever local names shadow it
				for _, p := range e.v.pkgs {
					if shortPkg(p.Pkg.Path()) == id.Name {
						if v, ok := e.pkgObject(p.Pkg, n.Name, env); ok {
							return v
						}
					}
				}
				if g, ok := e.v.ct.Ghosts[full]; ok && len(g.Idx) == 0 {
					e.regGhost(g)
					return Val{T: e.getIn(env.cur, g.Name), S: sortFromName(g.Val)}
				}
				if sf, ok := e.v.ct.Specs[full]; ok && len(sf.Params) == 0 {
					return e.specApp(sf, nil, env)
				}
			}
		}
		v := e.tr(n.X, env)
		return e.trField(v, n.Name, env)
	case *EQuant:
		env2 := env
		var decl []string
		for _, bv := range n.Vars {
			s := sortFromName(bv[1])
			name := "q." + bv[0]
			env2 = env2.bind(bv[0], Val{T: name, S: s})
			decl = append(decl, "("+name+" "+s+")")
		}
		b := e.tr(n.Body, env2)
		if b.S != "Bool" {
			e.trFail("quantifier body not boolean")
		}
		q := "exists"
		if n.Forall {
			q = "forall"
		}
		if len(n.Trig) > 0 {
			var ts []string
			for _, t := range n.Trig {
				ts = append(ts, e.tr(t, env2).T)
			}
			return Val{T: "(" + q + " (" + strings.Join(decl, " ") + ") (! " + b.T + " :pattern (" + strings.Join(ts, " ") + ")))", S: "Bool"}
		}
		return Val{T: "(" + q + " (" + strings.Join(decl, " ") + ") " + b.T + ")", S: "Bool"}
	}
	e.trFail("unsupported expression %s", x)
	return Val{}
}

func arrayValSort(s Sort) Sort {
	// "(Array K V)" -> V
	inner := s[len("(Array ") : len(s)-1]
	k := skipSexp(inner)
	return strings.TrimSpace(inner[k:])
}

func (e *enc) trField(v Val, name string, env *Env) Val {
	if v.GT == nil {
		e.trFail("field %s of value without Go type (%s)", name, v.T)
	}
	t := v.GT
	if p, ok := t.Underlying().(*types.Pointer); ok {
		st := p.Elem()
		idx := e.te.FieldIndex(st, name)
		if idx < 0 {
			e.trFail("no field %s in %s", name, typeName(st))
		}
		if v.A != nil {
			a := *v.A
			a.Path = append(append([]pathStep{}, a.Path...), pathStep{field: idx, ct: st})
			saved := e.state
			e.state = env.cur
			term, ft := e.loadAddr(&a)
			e.state = saved
			return Val{T: term, S: e.te.SortOf(ft), GT: ft}
		}
		ft := st.Underlying().(*types.Struct).Field(idx).Type()
		return Val{T: sel(e.getIn(env.cur, e.heapName(st, idx)), v.T), S: e.te.SortOf(ft), GT: ft}
	}
	if st, ok := t.Underlying().(*types.Struct); ok && !isOpaqueStruct(t) {
		idx := e.te.FieldIndex(t, name)
		if idx < 0 {
			e.trFail("no field %s in %s", name, typeName(t))
		}
		si := e.te.structOf(t)
		ft := st.Field(idx).Type()
		return Val{T: "(" + si.fields[idx] + " " + v.T + ")", S: e.te.SortOf(ft), GT: ft}
	}
	e.trFail("field %s of non-struct %s", name, typeName(t))
	return Val{}
}

func (e *enc) trIdent(name string, env *Env) Val {
	if v, ok := env.bound[name]; ok {
		return v
	}
	// a parameter or local renamed since the contract was written (alpha-equivalent body, see rename.go)
	if !e.noRename && e.fn != nil {
		base, suffix := name, ""
		if strings.HasSuffix(name, "$0") {
			base, suffix = strings.TrimSuffix(name, "$0"), "$0"
		}
		if cands := e.v.renamesFor(e.fn)[base]; len(cands) > 0 {
			_, direct := env.vars[name]
			_, cell := env.vars["&"+name]
			if !direct && !cell {
				for _, nn := range cands {
					_, d2 := env.vars[nn+suffix]
					_, c2 := env.vars["&"+nn+suffix]
					if d2 || c2 {
						if e.renamedUsed == nil {
							e.renamedUsed = map[string]string{}
						}
						e.renamedUsed[base] = nn
						return e.trIdent(nn+suffix, env)
					}
				}
			}
		}
	}
	if v, ok := env.vars[name]; ok {
		return v
	}
	// a local variable that lives in a cell (its address is taken or it is a struct): current value of the cell
	if av, ok := env.vars["&"+name]; ok && av.A != nil {
		saved := e.state
		e.state = env.cur
		term, ty := e.loadAddr(av.A)
		e.state = saved
		return Val{T: term, S: e.te.SortOf(ty), GT: ty}
	}
	if e.lets != nil {
		if v, ok := e.lets[name]; ok {
			return v
		}
	}
	// nullary spec
	if sf, ok := e.v.ct.Specs[name]; ok && len(sf.Params) == 0 {
		return e.specApp(sf, nil, env)
	}
	// ghost without index
	if g, ok := e.v.ct.Ghosts[name]; ok && len(g.Idx) == 0 {
		e.regGhost(g)
		return Val{T: e.getIn(env.cur, g.Name), S: sortFromName(g.Val)}
	}
	// package-level constant / variable of the function's package (or qualified pkg.Name handled in EField? no: dotted idents are calls)
	if e.fn != nil && e.fn.Pkg != nil {
		if v, ok := e.pkgObject(e.fn.Pkg.Pkg, name, env); ok {
			return v
		}
	}
	for _, p := range e.v.pkgs {
		if v, ok := e.pkgObject(p.Pkg, name, env); ok {
			return v
		}
	}
	if os.Getenv("GOVC_DEBUG_NAMES") != "" {
		var ks []string
		for k := range env.vars {
			ks = append(ks, k)
		}
		fmt.Fprintf(os.Stderr, "NAMES %s: %q not in %v\n", e.name, name, ks)
	}
	e.trFail("unknown identifier %q", name)
	return Val{}
}

func (e *enc) pkgObject(pkg *types.Package, name string, env *Env) (Val, bool) {
	obj := pkg.Scope().Lookup(name)
	if obj == nil {
		return Val{}, false
	}
	switch o := obj.(type) {
	case *types.Const:
		t := o.Type()
		s := e.te.SortOf(t)
		switch o.Val().Kind() {
		case constant.String:
			return Val{T: smtStr(constant.StringVal(o.Val())), S: "String", GT: t}, true
		case constant.Int:
			return Val{T: smtInt(o.Val().ExactString()), S: "Int", GT: t}, true
		case constant.Bool:
			return Val{T: fmt.Sprint(constant.BoolVal(o.Val())), S: "Bool", GT: t}, true
		}
		_ = s
	case *types.Var:
		sp := e.v.prog.Package(pkg)
		if sp == nil {
			return Val{}, false
		}
		if g, ok := sp.Members[name].(*ssaGlobal); ok {
			gn := e.globalName(g)
			el := g.Type().(*types.Pointer).Elem()
			return Val{T: e.getIn(env.cur, gn), S: e.te.SortOf(el), GT: el}, true
		}
	}
	return Val{}, false
}

func (e *enc) regGhost(g *GhostVar) {
	s := sortFromName(g.Val)
	for i := len(g.Idx) - 1; i >= 0; i-- {
		s = "(Array " + sortFromName(g.Idx[i]) + " " + s + ")"
	}
	e.regState(g.Name, s)
}

func (e *enc) trBinary(n *EBinary, env *Env) Val {
	switch n.Op {
	case "&&", "||", "==>", "<==>":
		a := e.tr(n.X, env)
		b := e.tr(n.Y, env)
		if a.S != "Bool" || b.S != "Bool" {
			e.trFail("%s on non-boolean operands (%s: %s, %s: %s)", n.Op, n.X, a.S, n.Y, b.S)
		}
		switch n.Op {
		case "&&":
			return Val{T: and(a.T, b.T), S: "Bool"}
		case "||":
			return Val{T: or(a.T, b.T), S: "Bool"}
		case "==>":
			return Val{T: implies(a.T, b.T), S: "Bool"}
		default:
			return Val{T: "(= " + a.T + " " + b.T + ")", S: "Bool"}
		}
	case "==", "!=":
		a := e.tr(n.X, env)
		b := e.tr(n.Y, env)
		if a.S == "Nil" && b.S == "Nil" {
			return Val{T: fmt.Sprint(n.Op == "=="), S: "Bool"}
		}
		if a.S == "Nil" {
			a = Val{T: e.nilOf(b), S: b.S}
		}
		if b.S == "Nil" {
			b = Val{T: e.nilOf(a), S: a.S}
		}
		t := e.eqVals(a, b)
		if n.Op == "!=" {
			t = not(t)
		}
		return Val{T: t, S: "Bool"}
	case "<", "<=", ">", ">=":
		a := e.tr(n.X, env)
		b := e.tr(n.Y, env)
		a, b = coerce(a, b)
		if a.S == "String" && b.S == "String" {
			switch n.Op {
			case "<":
				return Val{T: "(str.< " + a.T + " " + b.T + ")", S: "Bool"}
			case "<=":
				return Val{T: "(str.<= " + a.T + " " + b.T + ")", S: "Bool"}
			case ">":
				return Val{T: "(str.< " + b.T + " " + a.T + ")", S: "Bool"}
			default:
				return Val{T: "(str.<= " + b.T + " " + a.T + ")", S: "Bool"}
			}
		}
		if a.S != b.S || (a.S != "Int" && a.S != "Real") {
			e.trFail("%s on sorts %s, %s", n.Op, a.S, b.S)
		}
		return Val{T: "(" + n.Op + " " + a.T + " " + b.T + ")", S: "Bool"}
	case "+", "-", "*", "/", "%", "++":
		a := e.tr(n.X, env)
		b := e.tr(n.Y, env)
		if n.Op == "++" || (n.Op == "+" && a.S == "String") {
			if a.S != "String" || b.S != "String" {
				e.trFail("concatenation of %s and %s", a.S, b.S)
			}
			return Val{T: "(str.++ " + a.T + " " + b.T + ")", S: "String"}
		}
		a, b = coerce(a, b)
		if a.S != b.S || (a.S != "Int" && a.S != "Real") {
			e.trFail("%s on sorts %s, %s", n.Op, a.S, b.S)
		}
		switch n.Op {
		case "/":
			if a.S == "Int" {
				return Val{T: "(div " + a.T + " " + b.T + ")", S: "Int"}
			}
			return Val{T: "(/ " + a.T + " " + b.T + ")", S: "Real"}
		case "%":
			return Val{T: "(mod " + a.T + " " + b.T + ")", S: "Int"}
		}
		return Val{T: "(" + n.Op + " " + a.T + " " + b.T + ")", S: a.S}
	}
	e.trFail("unsupported operator %s", n.Op)
	return Val{}
}

func (e *enc) trArgs(args []Expr, env *Env) []Val {
	var out []Val
	for _, a := range args {
		out = append(out, e.tr(a, env))
	}
	return out
}

func (e *enc) trCall(n *ECall, env *Env) Val {
	switch n.Fn {
	case "old":
		if env.old == nil {
			e.trFail("old() not available here")
		}
		return e.tr(n.Args[0], env.withState(env.old))
	case "ite":
		c := e.tr(n.Args[0], env)
		a := e.tr(n.Args[1], env)
		b := e.tr(n.Args[2], env)
		a, b = coerce(a, b)
		if a.S == "Nil" {
			a = Val{T: e.nilOf(b), S: b.S}
		}
		if b.S == "Nil" {
			b = Val{T: e.nilOf(a), S: a.S}
		}
		if a.S != b.S {
			e.trFail("ite branches of sorts %s and %s", a.S, b.S)
		}
		gt := a.GT
		if gt == nil {
			gt = b.GT
		}
		return Val{T: "(ite " + c.T + " " + a.T + " " + b.T + ")", S: a.S, GT: gt}
	case "len":
		v := e.tr(n.Args[0], env)
		switch {
		case v.S == "String":
			return Val{T: "(str.len " + v.T + ")", S: "Int"}
		case v.S == "Slice":
			return Val{T: "(s-len " + v.T + ")", S: "Int"}
		case v.GT != nil:
			if m, ok := v.GT.Underlying().(*types.Map); ok {
				_, _, ln, _, _ := e.mapNames(m)
				return Val{T: ite("(= "+v.T+" 0)", "0", sel(e.getIn(env.cur, ln), v.T)), S: "Int"} // len(nil map) == 0
			}
		}
		e.trFail("len of sort %s", v.S)
	case "cap":
		v := e.tr(n.Args[0], env)
		return Val{T: "(s-cap " + v.T + ")", S: "Int"}
	case "has":
		m := e.tr(n.Args[0], env)
		k := e.tr(n.Args[1], env)
		if m.GT != nil {
			if mt, ok := m.GT.Underlying().(*types.Map); ok {
				dom, _, _, _, _ := e.mapNames(mt)
				return Val{T: sel(e.getIn(env.cur, dom), m.T, k.T), S: "Bool"}
			}
		}
		if strings.HasPrefix(m.S, "(Array ") {
			return Val{T: sel(m.T, k.T), S: "Bool"}
		}
		e.trFail("has() on non-map %s", n.Args[0])
	case "abs":
		v := e.tr(n.Args[0], env)
		if v.S == "Real" {
			return Val{T: "(abs_real " + v.T + ")", S: "Real"}
		}
		return Val{T: "(abs_int " + v.T + ")", S: "Int"}
	case "real":
		v := e.tr(n.Args[0], env)
		if v.S == "Real" {
			return v
		}
		return Val{T: "(to_real " + v.T + ")", S: "Real"}
	case "contains":
		a := e.trArgs(n.Args, env)
		return Val{T: "(str.contains " + a[0].T + " " + a[1].T + ")", S: "Bool"}
	case "prefixof":
		a := e.trArgs(n.Args, env)
		return Val{T: "(str.prefixof " + a[0].T + " " + a[1].T + ")", S: "Bool"}
	case "suffixof":
		a := e.trArgs(n.Args, env)
		return Val{T: "(str.suffixof " + a[0].T + " " + a[1].T + ")", S: "Bool"}
	case "indexof":
		a := e.trArgs(n.Args, env)
		from := "0"
		if len(a) > 2 {
			from = a[2].T
		}
		return Val{T: "(str.indexof " + a[0].T + " " + a[1].T + " " + from + ")", S: "Int"}
	case "substr":
		a := e.trArgs(n.Args, env)
		return Val{T: "(str.substr " + a[0].T + " " + a[1].T + " " + a[2].T + ")", S: "String"}
	case "replaceFirst":
		a := e.trArgs(n.Args, env)
		return Val{T: "(str.replace " + a[0].T + " " + a[1].T + " " + a[2].T + ")", S: "String"}
	case "as":
		// as(x, "*pkg.Type"): view a reference under a Go type (needed for field access on bound variables)
		v := e.tr(n.Args[0], env)
		if st, ok := n.Args[1].(*EStr); ok {
			t := e.v.lookupType(st.V)
			if t == nil {
				e.trFail("unknown type %q", st.V)
			}
			v.GT = t
			return v
		}
		e.trFail("as() needs a type name")
	case "rng.pos", "rng.len", "rng.key", "rng.idx":
		k, ok := n.Args[0].(*EInt)
		if !ok {
			e.trFail("%s: first argument must be the range ordinal", n.Fn)
		}
		var ord int
		fmt.Sscan(k.V, &ord)
		rg := e.rangeByOrdinal(ord)
		if rg == nil || e.rangeInfo[rg] == nil {
			e.trFail("no range #%d over a map here", ord)
		}
		ri := e.rangeInfo[rg]
		mt := rg.X.Type().Underlying().(*types.Map)
		switch n.Fn {
		case "rng.pos":
			return Val{T: e.getIn(env.cur, e.iters[rg]), S: "Int"}
		case "rng.len":
			return Val{T: ri.n, S: "Int"}
		case "rng.key":
			j := e.tr(n.Args[1], env)
			return Val{T: "(" + ri.seq + " " + j.T + ")", S: e.te.SortOf(mt.Key()), GT: mt.Key()}
		default:
			kk := e.tr(n.Args[1], env)
			return Val{T: "(" + ri.idx + " " + kk.T + ")", S: "Int"}
		}
	case "addr.rwMu":
		// identity of the mutex field of an LRUCache (field 0)
		v := e.tr(n.Args[0], env)
		e.declFun("fieldloc", []Sort{"Int", "Int"}, "Int")
		return Val{T: "(fieldloc " + v.T + " 0)", S: "Int"}
	case "comparable":
		// comparable(x): the dynamic type of interface x supports == (and hashing); nil is comparable
		v := e.tr(n.Args[0], env)
		return Val{T: or("(= (i-tag "+v.T+") 0)", "(comparableTag (i-tag "+v.T+"))"), S: "Bool"}
	case "itag":
		v := e.tr(n.Args[0], env)
		return Val{T: "(i-tag " + v.T + ")", S: "Int"}
	case "sliceptr":
		v := e.tr(n.Args[0], env)
		return Val{T: "(s-ptr " + v.T + ")", S: "Int"}
	case "tagof":
		// tagof("string") -> interface type tag constant of a Go type given by name
		if s, ok := n.Args[0].(*EStr); ok {
			t := e.v.lookupType(s.V)
			if t == nil {
				e.trFail("unknown type %q", s.V)
			}
			return Val{T: fmt.Sprint(e.te.TagOf(t)), S: "Int"}
		}
	case "unbox":
		// unbox("Int", iface)
		if s, ok := n.Args[0].(*EStr); ok {
			v := e.tr(n.Args[1], env)
			so := sortFromName(s.V)
			e.useBox(so)
			return Val{T: "(" + unboxFn(so) + " (i-val " + v.T + "))", S: so}
		}
	case "raw", "rawlo", "rawhi":
		// raw(s, x): the element of slice s's backing array at the absolute index x (rawlo(s) <= x < rawhi(s) are s's own
		// elements). Quantifying over x instead of s[j] gives the pattern (select arr x), which matches the element terms of
		// an in-place append / copy whatever offset they were computed from (shifts inside one backing array).
		v := e.tr(n.Args[0], env)
		if v.S != "Slice" {
			e.trFail("%s() of a non-slice", n.Fn)
		}
		switch n.Fn {
		case "rawlo":
			return Val{T: "(s-off " + v.T + ")", S: "Int"}
		case "rawhi":
			return Val{T: "(+ (s-off " + v.T + ") (s-len " + v.T + "))", S: "Int"}
		}
		var et types.Type
		if v.GT != nil {
			if sl, ok := v.GT.Underlying().(*types.Slice); ok {
				et = sl.Elem()
			}
		}
		if et == nil {
			e.trFail("raw() of slice with unknown element type: %s", n.Args[0])
		}
		es := e.te.SortOf(et)
		x := e.tr(n.Args[1], env)
		return Val{T: sel(e.getIn(env.cur, e.memName(es)), "(s-ptr "+v.T+")", x.T), S: es, GT: et}
	case "box":
		// box("reflect.Value", x): the interface value the compiler builds when x of the named Go type is passed as interface{}
		if s, ok := n.Args[0].(*EStr); ok {
			t := e.v.lookupType(s.V)
			if t == nil {
				e.trFail("unknown type %q", s.V)
			}
			v := e.tr(n.Args[1], env)
			e.useBox(v.S)
			return Val{T: fmt.Sprintf("(mk-iface %d (%s %s))", e.te.TagOf(t), boxFn(v.S), v.T), S: "Iface"}
		}
	case "addr":
		// addr(G): the identity of a package-level variable
		if id, ok := n.Args[0].(*EIdent); ok {
			for _, p := range e.v.pkgs {
				if g, ok := p.Members[id.Name].(*ssaGlobal); ok {
					return Val{T: smtInt(fmt.Sprint(e.v.globalID(e.globalName(g)))), S: "Int"}
				}
			}
		}
		e.trFail("addr() of unknown global %s", n.Args[0])
	case "fresh":
		// fresh(x): reference x was allocated after the pre-state
		if env.old == nil {
			e.trFail("fresh() needs a pre-state")
		}
		e.regState("frontier", "Int")
		v := e.tr(n.Args[0], env)
		return Val{T: "(>= " + v.T + " " + e.getIn(env.old, "frontier") + ")", S: "Bool"}
	case "funcval":
		// funcval("valid.In$1"): the value of a function of the repository (what a dynamic call through it sees as `callee`)
		if st, ok := n.Args[0].(*EStr); ok {
			if f := e.v.funcs[st.V]; f != nil {
				return Val{T: fmt.Sprint(e.v.funcID(f)), S: "Int", Fn: f}
			}
			e.trFail("funcval: unknown function %q", st.V)
		}
	case "byteAt":
		a := e.trArgs(n.Args, env)
		if len(a) == 2 {
			return Val{T: "(byteAt " + a[0].T + " " + a[1].T + ")", S: "Int"}
		}
	case "strheap":
		// strheap(): the whole memory of string elements (contents of every []string) in the current state, as a value;
		// lets a trusted contract say "a function of the slice's contents" without sequences
		nm := e.stateVarByName("Mem.String")
		return Val{T: e.getIn(env.cur, nm), S: "(Array Int (Array Int String))"}
	case "allocated":
		e.regState("frontier", "Int")
		v := e.tr(n.Args[0], env)
		return Val{T: "(< " + v.T + " " + e.getIn(env.cur, "frontier") + ")", S: "Bool"}
	}
	// state-dependent predicate macro
	if pd, ok := e.v.ct.Preds[n.Fn]; ok {
		args := e.trArgs(n.Args, env)
		if len(args) != len(pd.Params) {
			e.trFail("pred %s expects %d arguments", pd.Name, len(pd.Params))
		}
		env2 := env
		for i, p := range pd.Params {
			a := args[i]
			if p[1] != "" {
				if t := e.v.lookupType(p[1]); t != nil {
					a.GT = t
				}
			}
			env2 = env2.bind(p[0], a)
		}
		return e.tr(pd.Body, env2)
	}
	// ghost state read
	if g, ok := e.v.ct.Ghosts[n.Fn]; ok {
		e.regGhost(g)
		args := e.trArgs(n.Args, env)
		if len(args) != len(g.Idx) {
			e.trFail("ghost %s expects %d indices", g.Name, len(g.Idx))
		}
		t := e.getIn(env.cur, g.Name)
		for _, a := range args {
			t = sel(t, a.T)
		}
		return Val{T: t, S: sortFromName(g.Val)}
	}
	if sf, ok := e.v.ct.Specs[n.Fn]; ok {
		return e.specApp(sf, e.trArgs(n.Args, env), env)
	}
	// pure function result: Fn.result(args)
	if i := strings.LastIndex(n.Fn, "."); i >= 0 {
		if v, ok := e.pureApp(n.Fn[:i], n.Fn[i+1:], e.trArgs(n.Args, env)); ok {
			return v
		}
	}
	if v, ok := e.pureApp(n.Fn, "", e.trArgs(n.Args, env)); ok {
		return v
	}
	e.trFail("unknown function %q", n.Fn)
	return Val{}
}

// specApp applies a spec function. Defined spec functions are emitted as define-fun.
func (e *enc) specApp(sf *SpecFn, args []Val, env *Env) Val {
	if len(args) != len(sf.Params) {
		e.trFail("spec %s expects %d arguments, got %d", sf.Name, len(sf.Params), len(args))
	}
	name := symSafe(sf.Name)
	ret := sortFromName(sf.Ret)
	if !e.declared["spec:"+name] {
		e.declared["spec:"+name] = true
		var ps []string
		var psorts []Sort
		env2 := &Env{vars: map[string]Val{}, cur: nil, e: e}
		for _, p := range sf.Params {
			s := sortFromName(p[1])
			ps = append(ps, "(sp."+p[0]+" "+s+")")
			psorts = append(psorts, s)
			env2.vars[p[0]] = Val{T: "sp." + p[0], S: s}
		}
		if sf.Body == nil {
			e.decls = append(e.decls, fmt.Sprintf("(declare-fun %s (%s) %s)", name, strings.Join(psorts, " "), ret))
		} else {
			saveLets := e.lets
			e.lets = nil
			b := e.tr(sf.Body, env2)
			e.lets = saveLets
			if b.S == "Int" && ret == "Real" {
				b = Val{T: "(to_real " + b.T + ")", S: "Real"}
			}
			if b.S != ret {
				e.trFail("spec %s body has sort %s, declared %s", sf.Name, b.S, ret)
			}
			e.decls = append(e.decls, fmt.Sprintf("(define-fun %s (%s) %s %s)", name, strings.Join(ps, " "), ret, b.T))
		}
	}
	for i, p := range sf.Params {
		want := sortFromName(p[1])
		if args[i].S == "Int" && want == "Real" {
			args[i] = Val{T: "(to_real " + args[i].T + ")", S: "Real"}
		}
		if args[i].S == "Nil" {
			args[i] = Val{T: e.nilOf(Val{S: want}), S: want}
		}
		if args[i].S != want {
			e.trFail("spec %s argument %d has sort %s, want %s", sf.Name, i, args[i].S, want)
		}
	}
	if len(args) == 0 {
		return Val{T: name, S: ret}
	}
	var ts []string
	for _, a := range args {
		ts = append(ts, a.T)
	}
	return Val{T: "(" + name + " " + strings.Join(ts, " ") + ")", S: ret}
}

func (e *enc) useBox(s Sort) {
	k := "box:" + s
	if e.declared[k] {
		return
	}
	e.declared[k] = true
	e.decls = append(e.decls,
		fmt.Sprintf("(declare-fun %s (%s) Any)", boxFn(s), s),
		fmt.Sprintf("(declare-fun %s (Any) %s)", unboxFn(s), s),
		fmt.Sprintf("(assert (forall ((x %s)) (! (= (%s (%s x)) x) :pattern ((%s x)))))", s, unboxFn(s), boxFn(s), boxFn(s)))
}

// pureApp: application of the uninterpreted function naming result `res` of a pure repo function.
func (e *enc) pureApp(fn, res string, args []Val) (Val, bool) {
	f := e.v.findFunc(fn)
	if f == nil {
		return Val{}, false
	}
	fc := e.v.ct.Funcs[e.v.funcName(f)]
	if fc == nil || !fc.Pure {
		return Val{}, false
	}
	sig := f.Signature
	idx := 0
	if res != "" {
		idx = -1
		for i := 0; i < sig.Results().Len(); i++ {
			if sig.Results().At(i).Name() == res {
				idx = i
			}
		}
		if idx < 0 {
			return Val{}, false
		}
	}
	return e.pureResult(f, idx, args), true
}

func (e *enc) pureResult(f *ssaFunction, idx int, args []Val) Val {
	sig := f.Signature
	name := fmt.Sprintf("pure.%s.%d", symSafe(e.v.funcName(f)), idx)
	var as []Sort
	var ts []string
	for i, a := range args {
		as = append(as, e.te.SortOf(f.Params[i].Type()))
		ts = append(ts, a.T)
	}
	rt := sig.Results().At(idx).Type()
	rs := e.te.SortOf(rt)
	e.declFun(name, as, rs)
	if len(ts) == 0 {
		return Val{T: name, S: rs, GT: rt}
	}
	return Val{T: "(" + name + " " + strings.Join(ts, " ") + ")", S: rs, GT: rt}
}

// specCall applies a spec function by name from engine code (declares it uninterpreted if the
// spec files do not mention it).
func (e *enc) specCall(name string, ret Sort, args ...Val) Val {
	if sf, ok := e.v.ct.Specs[name]; ok {
		return e.specApp(sf, args, &Env{vars: map[string]Val{}, cur: e.state, e: e})
	}
	var as []Sort
	var ts []string
	for _, a := range args {
		as = append(as, a.S)
		ts = append(ts, a.T)
	}
	e.declFun(symSafe(name), as, ret)
	return Val{T: "(" + symSafe(name) + " " + strings.Join(ts, " ") + ")", S: ret}
}
