package main

import (
	"flag"
	"fmt"
	"os"
	"strings"
	"sync"
	"time"
)

func main() {
	if len(os.Args) < 2 {
		fmt.Println("usage: govc dev|check|replay|selftest ...")
		os.Exit(2)
	}
	switch os.Args[1] {
	case "dev":
		devMain(os.Args[2:])
	case "check":
		checkMain(os.Args[2:])
	case "baseline":
		// snapshot of the sources the contracts were validated against (rename tolerance, rename.go)
		repo := os.Getenv("VERIF_REPO")
		if repo == "" {
			repo = "/repo"
		}
		if err := snapshotBaseline(repo, "/verif/baseline"); err != nil {
			fmt.Println("baseline:", err)
			os.Exit(1)
		}
		fmt.Println("baseline refreshed from", repo)
	default:
		fmt.Println("unknown command", os.Args[1])
		os.Exit(2)
	}
}

func envOr(k, d string) string {
	if v := os.Getenv(k); v != "" {
		return v
	}
	return d
}

// dev: encode the named functions (or all under contract) and discharge every obligation.
func devMain(args []string) {
	fs := flag.NewFlagSet("dev", flag.ExitOnError)
	repo := fs.String("repo", envOr("VERIF_REPO", "/repo"), "repository")
	specs := fs.String("specs", "/verif/specs", "spec dir")
	only := fs.String("func", "", "comma separated function names (substring match)")
	timeout := fs.Int("timeout", 10, "solver timeout (s)")
	keep := fs.String("keep", "", "directory to keep SMT files in")
	show := fs.String("show", "", "print query of obligations whose name contains this")
	fs.Parse(args)
	t0 := time.Now()
	v, err := loadVerifier(*repo, *specs)
	if err != nil {
		fmt.Println("load error:", err)
		os.Exit(2)
	}
	fmt.Printf("loaded in %.1fs, %d functions, %d contracts\n", time.Since(t0).Seconds(), len(v.funcs), len(v.ct.Funcs))
	work := *keep
	if work == "" {
		work = tmpWorkdir()
		defer os.RemoveAll(work)
	} else {
		os.MkdirAll(work, 0755)
	}
	var obls []*Obligation
	var allCovers []*Obligation
	for _, name := range v.contractedFuncs() {
		if *only != "" {
			hit := false
			for _, f := range strings.Split(*only, ",") {
				if strings.Contains(name, f) {
					hit = true
				}
			}
			if !hit {
				continue
			}
		}
		fn := v.funcs[name]
		if fn == nil {
			fmt.Printf("CONTRACT-TARGET-MISSING %s\n", name)
			continue
		}
		e := v.encodeFunction(fn, v.ct.Funcs[name])
		for _, m := range e.errs {
			fmt.Println("  ENCODE-ERROR:", m)
		}
		for u := range e.uncontracted {
			fmt.Println("  note: uncontracted callee", u, "in", name)
		}
		obls = append(obls, e.obls...)
		allCovers = append(allCovers, e.covers...)
	}
	var covers []*Obligation
	if *only == "" || strings.Contains(*only, "lemma") {
		for _, pr := range []string{"C02", "C06", "C07", "C14", "C15"} {
			for _, o := range v.lemmaObligations(pr) {
				dup := false
				for _, x := range obls {
					if x.Name == o.Name {
						dup = true
					}
				}
				if !dup {
					obls = append(obls, o)
				}
			}
		}
	}
	var wg sync.WaitGroup
	coverRes := map[string]string{}
	var cmu sync.Mutex
	for _, o := range allCovers {
		wg.Add(1)
		go func(o *Obligation) {
			defer wg.Done()
			st := runCover(o, work, 0, 2)
			cmu.Lock()
			coverRes[o.Name] = st
			cmu.Unlock()
		}(o)
	}
	_ = covers
	for _, o := range obls {
		wg.Add(1)
		go func(o *Obligation) {
			defer wg.Done()
			o.Query = o.BuildQuery()
			r := discharge(work, o.Name, o.Query, *timeout, 0)
			o.Result = &r
		}(o)
	}
	wg.Wait()
	bad := 0
	for _, o := range obls {
		st := o.Result.Status
		mark := "ok  "
		if st != "unsat" {
			mark = "FAIL"
			bad++
		}
		fmt.Printf("%s %-8s %-7s %5dms %s  [%s]\n", mark, st, o.Result.Solver, o.Result.Ms, o.Name, strings.Join(o.Props, " "))
		if st != "unsat" && st != "sat" {
			fmt.Println("      ", o.Result.All, firstLines(o.Result.Output, 3))
		}
		if *show != "" && strings.Contains(o.Name, *show) {
			fmt.Println(o.Query)
			if st == "sat" {
				fmt.Println(o.Result.Output)
			}
		}
	}
	nc := map[string]int{}
	for _, o := range allCovers {
		st := coverRes[o.Name]
		nc[st]++
		if st != "sat" && st != "sat-relaxed" {
			fmt.Printf("COVER %-8s %s  %s\n", st, o.Name, o.Pos)
		}
	}
	fmt.Printf("covers: %v\n", nc)
	fmt.Printf("%d obligations, %d not discharged, %.1fs\n", len(obls), bad, time.Since(t0).Seconds())
}

