package main

import (
	"fmt"
	"go/token"
	"go/types"
	"strings"

	"golang.org/x/tools/go/ssa"
)

func (e *enc) callArgs(c *ssa.CallCommon) []Val {
	var args []Val
	if c.IsInvoke() {
		args = append(args, e.val(c.Value))
	}
	for _, a := range c.Args {
		args = append(args, e.val(a))
	}
	return args
}

// call encodes a call instruction and returns its results.
func (e *enc) call(c *ssa.CallCommon, site ssa.Instruction, pos token.Pos) []Val {
	if b, ok := c.Value.(*ssa.Builtin); ok && !c.IsInvoke() {
		return e.builtin(b, c, site, pos)
	}
	args := e.callArgs(c)
	return e.callWith(c, args, site, pos)
}

func (e *enc) resultTypes(c *ssa.CallCommon) []types.Type {
	sig := c.Signature()
	var out []types.Type
	for i := 0; i < sig.Results().Len(); i++ {
		out = append(out, sig.Results().At(i).Type())
	}
	return out
}

func (e *enc) callWith(c *ssa.CallCommon, args []Val, site ssa.Instruction, pos token.Pos) []Val {
	fc, callee := e.v.contractForCall(c)
	calleeName := e.v.calleeName(c)
	short := shortCallee(calleeName)
	if !c.IsInvoke() && len(c.Args) > 0 {
		if gi, ok := e.guardOf[c.Args[0]]; ok {
			mutating := fc == nil || fc.ModAll || len(fc.Modifies) > 0 || (!fc.HasMod && !fc.Trusted && !fc.Pure)
			e.guardOblige(gi, mutating, "call "+short+" on "+gi.what, pos)
		}
	}
	e.callOrd[short]++
	ord := e.callOrd[short] - 1
	// dynamic call: function value must not be nil
	if !c.IsInvoke() && c.StaticCallee() == nil {
		fv := e.val(c.Value)
		if fv.Fn != nil {
			callee = fv.Fn
			if k := e.v.ct.Funcs[e.v.funcName(fv.Fn)]; k != nil {
				fc = k
			}
		} else {
			e.safety("nil-func-call", "(not (= "+fv.T+" 0))", pos)
		}
	}
	if c.IsInvoke() {
		recv := args[0]
		switch recv.S {
		case "Iface":
			e.safety("nil-iface-call", "(not (= (i-tag "+recv.T+") 0))", pos)
		case "RType":
			e.safety("nil-iface-call", "(not (= "+recv.T+" rt.nil))", pos)
		}
	}
	// call-site assertions of the enclosing contract
	if e.fc != nil {
		for _, ca := range e.fc.CallAsrt {
			if ca.Callee != short && ca.Callee != calleeName {
				continue
			}
			if ca.CallK >= 0 && ca.CallK != ord {
				continue
			}
			if e.matchedCA == nil {
				e.matchedCA = map[*Clause]bool{}
			}
			e.matchedCA[ca] = true
			env := e.callSiteEnv(fc, callee, c, args)
			if ca.Kind == "reached_when" {
				// the call is reached whenever the condition holds: no early exit or skipped branch in front of it
				g := e.trBool(ca.E, env, "call-site reached_when")
				saved := e.curReach
				e.curReach = "true"
				ante := and(g, e.enclosingReach(e.curBlock, nil))
				e.oblige1("assert", fmt.Sprintf("call %s#%d reached %s", short, ord, clauseName(ca)), ca.Props, ca.Src, "(=> "+ante+" "+saved+")", pos)
				// vacuity guard: the condition must be satisfiable together with reaching this loop body; otherwise the
				// clause sits on the wrong call site (ordinals follow the encoding order) and states nothing
				e.curReach = ante
				e.coverVac(fmt.Sprintf("call %s#%d reached %s antecedent", short, ord, clauseName(ca)), ca.Props, ca.Src, pos)
				e.curReach = saved
				continue
			}
			g := e.trBool(ca.E, env, "call-site assert")
			e.oblige("assert", fmt.Sprintf("call %s#%d %s", short, ord, clauseName(ca)), ca.Props, ca.Src, g, pos)
			e.assumeHere(g)
		}
	}
	rts := e.resultTypes(c)
	if fc == nil && callee != nil && !c.IsInvoke() && c.StaticCallee() == callee && e.v.inRepo(callee) && e.canInline(callee) {
		return e.inlineCall(callee, args, rts, pos)
	}
	if fc == nil && c.IsInvoke() {
		// a method call through an interface whose implementation is not known and has no contract may do anything,
		// including panic (a typed-nil receiver behind fmt.Stringer, for one): it needs a contract in the table
		e.safety("dynamic-callee-without-contract", "false", pos)
	}
	if fc == nil {
		// unknown callee: arbitrary effects, arbitrary results
		if callee != nil && e.v.inRepo(callee) {
			if callee.Blocks != nil && len(callee.FreeVars) == 0 && !e.discover {
				dup := false
				for _, x := range e.needContract {
					if x == e.v.funcName(callee) {
						dup = true
					}
				}
				if !dup {
					e.needContract = append(e.needContract, e.v.funcName(callee))
				}
			}
			e.noteUncontracted(e.v.funcName(callee))
		} else {
			e.noteUncontracted(calleeName)
		}
		e.havocAll()
		e.bumpFrontier()
		var res []Val
		for i, t := range rts {
			r := e.freshVal(fmt.Sprintf("r.%s.%d", short, i), t)
			e.assumeAllocatedNow(r)
			res = append(res, r)
		}
		return res
	}
	return e.applyContract(fc, callee, c, args, rts, fmt.Sprintf("%s#%d", short, ord), pos)
}

func shortCallee(n string) string {
	// (*valid.LRUCache).delete -> delete ; valid.To -> To ; (reflect.Value).Kind -> Kind
	if i := strings.LastIndex(n, "."); i >= 0 {
		return n[i+1:]
	}
	return n
}

func (e *enc) noteUncontracted(name string) {
	if e.uncontracted == nil {
		e.uncontracted = map[string]bool{}
	}
	e.uncontracted[name] = true
}

func (e *enc) bumpFrontier() {
	old := e.get("frontier")
	e.havoc("frontier")
	e.assume("(>= " + e.get("frontier") + " " + old + ")")
}

func (e *enc) assumeAllocatedNow(v Val) {
	switch v.S {
	case "Int":
		if v.GT != nil {
			switch v.GT.Underlying().(type) {
			case *types.Pointer, *types.Map:
				e.assumeHere("(< " + v.T + " " + e.get("frontier") + ")")
			}
		}
	case "Slice":
		e.assumeHere("(< (s-ptr " + v.T + ") " + e.get("frontier") + ")")
	}
}

// paramNames of a contract's function: from the table header (trusted) or from the SSA function.
func (e *enc) paramNames(fc *FuncContract, callee *ssa.Function, c *ssa.CallCommon, n int) []string {
	if len(fc.Params) > 0 {
		return fc.Params
	}
	var names []string
	if callee != nil && len(callee.Params) == n {
		for _, p := range callee.Params {
			names = append(names, p.Name())
		}
		return names
	}
	if c != nil {
		sig := c.Signature()
		if c.IsInvoke() {
			names = append(names, "this")
		} else if sig.Recv() != nil {
			names = append(names, sig.Recv().Name())
		}
		for i := 0; i < sig.Params().Len(); i++ {
			names = append(names, sig.Params().At(i).Name())
		}
	}
	for len(names) < n {
		names = append(names, fmt.Sprintf("a%d", len(names)))
	}
	return names
}

func (e *enc) resultNames(fc *FuncContract, callee *ssa.Function, sig *types.Signature) []string {
	if len(fc.Results) > 0 {
		return fc.Results
	}
	var names []string
	for i := 0; i < sig.Results().Len(); i++ {
		n := sig.Results().At(i).Name()
		if n == "" || n == "_" {
			if sig.Results().Len() == 1 {
				n = "result"
			} else {
				n = fmt.Sprintf("result%d", i)
			}
		}
		names = append(names, n)
	}
	return names
}

func (e *enc) callSiteEnv(fc *FuncContract, callee *ssa.Function, c *ssa.CallCommon, args []Val) *Env {
	vars := map[string]Val{}
	// names of the enclosing function are visible too (prefixed lookups resolve callee params first)
	for k, v := range e.currentNames() {
		vars[k] = v
	}
	var names []string
	if fc != nil {
		names = e.paramNames(fc, callee, c, len(args))
	} else {
		names = e.paramNames(&FuncContract{}, callee, c, len(args))
	}
	for i, n := range names {
		if i < len(args) {
			if _, clash := vars[n]; !clash {
				vars[n] = args[i] // names of the enclosing function win; the callee's arguments are always argN
			}
			vars[fmt.Sprintf("arg%d", i)] = args[i]
		}
	}
	return &Env{vars: vars, cur: e.state, old: e.initSt, e: e}
}

// currentNames: source-level names visible at the current point (params, dominating debug refs).
func (e *enc) currentNames() map[string]Val {
	vars := map[string]Val{}
	for k, v := range e.params {
		vars[k] = v
		vars[k+"$0"] = v
	}
	if len(e.inl) > 0 {
		// inside a helper encoded in place: the caller's names at the call site, then the helper's own parameters
		fr := e.inl[len(e.inl)-1]
		for k, v := range fr.outer {
			vars[k] = v
		}
		for _, p := range fr.fn.Params {
			if v, ok := e.vals[p]; ok {
				vars[p.Name()] = v
			}
		}
	}
	for name, vs := range e.dbg {
		if val, ok := e.pickNamed(name, vs, e.curBlock, false, e.curPos); ok {
			vars[name] = val
		}
	}
	return vars
}

func (e *enc) applyContract(fc *FuncContract, callee *ssa.Function, c *ssa.CallCommon, args []Val, rts []types.Type, siteName string, pos token.Pos) []Val {
	names := e.paramNames(fc, callee, c, len(args))
	if fc.Trusted {
		if e.usedTrusted == nil {
			e.usedTrusted = map[string]bool{}
		}
		e.usedTrusted["trusted contract: "+fc.Name] = true
	}
	vars := map[string]Val{}
	for i, n := range names {
		if i < len(args) {
			vars[n] = args[i]
		}
	}
	if !c.IsInvoke() && c.StaticCallee() == nil {
		vars["callee"] = e.val(c.Value) // the function value of a dynamic call, for functype contracts
	}
	// parameters of the callee renamed since its contract was written
	for old, news := range e.v.renamesFor(callee) {
		for _, nn := range news {
			if v, ok := vars[nn]; ok {
				if _, has := vars[old]; !has {
					vars[old] = v
				}
			}
		}
	}
	pre := copyState(e.state)
	env := &Env{vars: vars, cur: pre, old: pre, e: e}
	savedLets := e.lets
	e.lets = map[string]Val{}
	defer func() { e.lets = savedLets }()
	for _, l := range fc.Lets {
		if v, ok := e.trVal(l.E, env, "let "+l.Name+" of "+fc.Name); ok {
			e.lets[l.Name] = v
		}
	}
	// requires
	for _, r := range fc.Requires {
		g := e.trBool(r.E, env, "requires of "+fc.Name)
		props := r.Props
		if len(props) == 0 || fc.Trusted {
			props = mergeProps(props, e.safetyProps)
		}
		e.oblige("requires", siteName+" "+clauseName(r), props, r.Src, g, pos)
		e.assumeHere(g)
	}
	// results
	var res []Val
	sig := c.Signature()
	if fc.Pure && callee != nil {
		for i := range rts {
			r := e.pureResult(callee, i, args)
			e.assumeHere(e.te.TypeInv(r.T, rts[i]))
			res = append(res, r)
		}
	} else {
		// modifies
		if fc.ModAll || (!fc.HasMod && !fc.Trusted) {
			e.havocAll()
		} else {
			for _, m := range fc.Modifies {
				e.havocLoc(m, env)
			}
		}
		// the callee may allocate: the frontier only grows (results are allocated before the new frontier,
		// `fresh(r)` places them at or after the old one)
		e.bumpFrontier()
		for i, t := range rts {
			r := e.freshVal(fmt.Sprintf("r.%s.%d", symSafe(siteName), i), t)
			e.assumeAllocatedNow(r)
			res = append(res, r)
		}
	}
	rnames := e.resultNames(fc, callee, sig)
	post := &Env{vars: map[string]Val{}, cur: e.state, old: pre, e: e}
	for k, v := range vars {
		post.vars[k] = v
	}
	for i, n := range rnames {
		if i < len(res) {
			post.vars[n] = res[i]
		}
	}
	if len(res) == 1 {
		post.vars["result"] = res[0]
	}
	for _, en := range fc.Ensures {
		e.assumeHere(e.trBool(en.E, post, "ensures of "+fc.Name))
	}
	for _, en := range fc.Defines {
		// definitional clause: names the result as a function of the arguments (determinism of a function whose frame
		// is proved empty); assumed here, never proved from the body, reported among the assumptions
		e.assumeHere(e.trBool(en.E, post, "defines of "+fc.Name))
		if e.usedTrusted == nil {
			e.usedTrusted = map[string]bool{}
		}
		e.usedTrusted["assumed: "+fc.Name+" is deterministic (its result is named by spec functions of its arguments: "+clauseName(en)+")"] = true
	}
	return res
}

func mergeProps(a, b []string) []string {
	seen := map[string]bool{}
	var out []string
	for _, x := range append(append([]string{}, a...), b...) {
		if !seen[x] {
			seen[x] = true
			out = append(out, x)
		}
	}
	return out
}

// havocLoc havocs the location(s) named by a modifies expression, evaluated in env (pre-state).
func (e *enc) havocLoc(m Expr, env *Env) {
	defer func() {
		if r := recover(); r != nil {
			if te, ok := r.(trErr); ok {
				e.errf("%s: modifies %s: %s", e.name, m.String(), string(te))
				e.havocAll()
				return
			}
			panic(r)
		}
	}()
	switch x := m.(type) {
	case *EStr:
		name := e.stateVarByName(x.V)
		if name == "" {
			e.trFail("unknown state variable %q", x.V)
		}
		e.havoc(name)
		return
	case *EIdent:
		if g, ok := e.v.ct.Ghosts[x.Name]; ok {
			e.regGhost(g)
			e.havoc(g.Name)
			return
		}
		if _, ok := e.sorts[x.Name]; ok {
			e.havoc(x.Name)
			return
		}
		// package-level variable
		for _, p := range e.v.pkgs {
			if g, ok := p.Members[x.Name].(*ssa.Global); ok {
				e.havoc(e.globalName(g))
				return
			}
		}
		e.trFail("unknown location %s", x.Name)
	case *ECall:
		if g, ok := e.v.ct.Ghosts[x.Fn]; ok {
			e.regGhost(g)
			var idx []string
			for _, a := range x.Args {
				idx = append(idx, e.tr(a, env).T)
			}
			e.havocAt(g.Name, idx...)
			return
		}
		switch x.Fn {
		case "mapof":
			v := e.tr(x.Args[0], env)
			mt, ok := v.GT.Underlying().(*types.Map)
			if !ok {
				e.trFail("mapof on non-map")
			}
			dom, val, ln, _, _ := e.mapNames(mt)
			e.havocAt(dom, v.T)
			e.havocAt(val, v.T)
			e.havocAt(ln, v.T)
			e.assumeHere("(>= " + sel(e.get(ln), v.T) + " 0)")
			return
		case "elems":
			v := e.tr(x.Args[0], env)
			sl, ok := v.GT.Underlying().(*types.Slice)
			if !ok {
				e.trFail("elems on non-slice")
			}
			e.havocAt(e.memName(e.te.SortOf(sl.Elem())), "(s-ptr "+v.T+")")
			return
		case "fields":
			v := e.tr(x.Args[0], env)
			p, ok := v.GT.Underlying().(*types.Pointer)
			if !ok {
				e.trFail("fields on non-pointer")
			}
			st := p.Elem().Underlying().(*types.Struct)
			for i := 0; i < st.NumFields(); i++ {
				e.havocAt(e.heapName(p.Elem(), i), v.T)
			}
			return
		}
		e.trFail("unknown location form %s", x.Fn)
	case *EField:
		if g, ok := e.v.ct.Ghosts[x.String()]; ok {
			e.regGhost(g)
			e.havoc(g.Name)
			return
		}
		v := e.tr(x.X, env)
		p, ok := v.GT.Underlying().(*types.Pointer)
		if !ok {
			e.trFail("modifies field of non-pointer")
		}
		idx := e.te.FieldIndex(p.Elem(), x.Name)
		if idx < 0 {
			e.trFail("no field %s", x.Name)
		}
		e.havocAt(e.heapName(p.Elem(), idx), v.T)
		h := e.heapName(p.Elem(), idx)
		ft := p.Elem().Underlying().(*types.Struct).Field(idx).Type()
		e.assumeHere(e.te.TypeInv(sel(e.get(h), v.T), ft))
	default:
		e.trFail("unsupported location")
	}
}

// ---------------------------------------------------------------------------
// return, defers

func (e *enc) runDefers() {
	for i := len(e.defers) - 1; i >= 0; i-- {
		d := e.defers[i]
		flag := e.get(d.flag)
		if flag == "false" {
			continue
		}
		// execute under condition flag
		pre := copyState(e.state)
		savedReach := e.curReach
		e.curReach = and(savedReach, flag)
		c := d.instr.Common()
		if b, ok := c.Value.(*ssa.Builtin); ok && !c.IsInvoke() {
			e.builtin(b, c, d.instr, d.instr.Pos())
		} else {
			e.callWith(c, e.deferArgs[d.instr], d.instr, d.instr.Pos())
		}
		e.curReach = savedReach
		// merge
		post := e.state
		merged := map[string]string{}
		keys := map[string]bool{}
		for k := range pre {
			keys[k] = true
		}
		for k := range post {
			keys[k] = true
		}
		e.state = merged
		for k := range keys {
			a, b := e.getIn(post, k), e.getIn(pre, k)
			if a == b {
				merged[k] = a
				continue
			}
			if flag == "true" {
				merged[k] = a
				continue
			}
			e.vers[k]++
			n := fmt.Sprintf("%s!d%d", symSafe(k), e.vers[k])
			e.declConst(n, e.stateSort(k))
			e.assume(eq(n, ite(flag, a, b)))
			merged[k] = n
		}
	}
}

func (e *enc) ret(x *ssa.Return) {
	e.coverOrd++
	e.cover(fmt.Sprintf("return#%d", e.coverOrd), x.Pos())
	if e.fc == nil {
		return
	}
	sig := e.fn.Signature
	vars := map[string]Val{}
	for k, v := range e.params {
		vars[k] = v
	}
	names := e.resultNames(e.fc, e.fn, sig)
	for i, r := range x.Results {
		if i < len(names) {
			vars[names[i]] = e.val(r)
		}
	}
	if len(x.Results) == 1 {
		vars["result"] = e.val(x.Results[0])
	}
	env := &Env{vars: vars, cur: e.state, old: e.initSt, e: e}
	e.retOrd++
	for _, list := range [][]*Clause{e.fc.Ensures, e.fc.Proves} {
		for _, c := range list {
			g := e.trBool(c.E, env, "ensures")
			e.oblige(c.Kind, fmt.Sprintf("%s @ret%d", clauseName(c), e.retOrd), c.Props, c.Src, g, x.Pos())
		}
	}
	// pure functions: results are named by the uninterpreted symbols
	if e.fc.Pure {
		var args []Val
		for _, p := range e.fn.Params {
			args = append(args, e.vals[p])
		}
		for i, r := range x.Results {
			pr := e.pureResult(e.fn, i, args)
			_ = pr
			_ = r
		}
	}
	// frame: state variables not named in modifies are unchanged
	if e.fc.HasMod && !e.fc.ModAll {
		e.frameCheck(x)
	}
}

// frameSpec resolves the modifies clause of the function under verification: state variables that may change
// entirely (allowed) and, per array-sorted state variable, the first-level indices that may change (locs),
// evaluated in the entry state.
func (e *enc) frameSpec() (map[string]bool, map[string][][]string) {
	if e.frameAllowed != nil {
		return e.frameAllowed, e.frameLocs
	}
	allowed := map[string]bool{"frontier": true}
	partial := map[string][]Expr{}
	for _, m := range e.fc.Modifies {
		switch mm := m.(type) {
		case *EStr:
			if n := e.stateVarByName(mm.V); n != "" {
				allowed[n] = true
			}
		case *EIdent:
			allowed[mm.Name] = true
			for _, p := range e.v.pkgs {
				if g, ok := p.Members[mm.Name].(*ssa.Global); ok {
					allowed[e.globalName(g)] = true
				}
			}
		case *ECall:
			if _, ok := e.v.ct.Ghosts[mm.Fn]; ok {
				partial[mm.Fn] = append(partial[mm.Fn], m)
			} else {
				// mapof / elems / fields: checked through location-wise comparison below
				partial["?"+mm.String()] = append(partial["?"+mm.String()], m)
			}
		case *EField:
			if _, ok := e.v.ct.Ghosts[mm.String()]; ok {
				allowed[mm.String()] = true
			} else {
				partial["?"+mm.String()] = append(partial["?"+mm.String()], m)
			}
		}
	}
	env := &Env{vars: e.params, cur: e.initSt, old: e.initSt, e: e}
	// resolve partial locations to (state var, index terms)
	locs := map[string][][]string{}
	for key, ms := range partial {
		for _, m := range ms {
			func() {
				defer func() {
					if r := recover(); r != nil {
						if _, ok := r.(trErr); ok {
							allowed["*"] = true
							return
						}
						panic(r)
					}
				}()
				switch mm := m.(type) {
				case *ECall:
					if g, ok := e.v.ct.Ghosts[mm.Fn]; ok {
						var idx []string
						for _, a := range mm.Args {
							idx = append(idx, e.tr(a, env).T)
						}
						locs[g.Name] = append(locs[g.Name], idx)
						return
					}
					v := e.tr(mm.Args[0], env)
					switch mm.Fn {
					case "mapof":
						dom, val, ln, _, _ := e.mapNames(v.GT.Underlying().(*types.Map))
						for _, n := range []string{dom, val, ln} {
							locs[n] = append(locs[n], []string{v.T})
						}
					case "elems":
						n := e.memName(e.te.SortOf(v.GT.Underlying().(*types.Slice).Elem()))
						locs[n] = append(locs[n], []string{"(s-ptr " + v.T + ")"})
					case "fields":
						p := v.GT.Underlying().(*types.Pointer)
						st := p.Elem().Underlying().(*types.Struct)
						for i := 0; i < st.NumFields(); i++ {
							n := e.heapName(p.Elem(), i)
							locs[n] = append(locs[n], []string{v.T})
						}
					}
				case *EField:
					v := e.tr(mm.X, env)
					p := v.GT.Underlying().(*types.Pointer)
					n := e.heapName(p.Elem(), e.te.FieldIndex(p.Elem(), mm.Name))
					locs[n] = append(locs[n], []string{v.T})
				}
			}()
		}
		_ = key
	}
	e.frameAllowed, e.frameLocs = allowed, locs
	return allowed, locs
}

// frameGoal: state variable n, whose current term is cur, agrees with the entry state outside the modifies clause.
func (e *enc) frameGoal(n, cur string) string {
	_, locs := e.frameSpec()
	init := e.getIn(e.initSt, n)
	s := e.stateSort(n)
	if strings.HasPrefix(s, "(Array ") && !strings.HasPrefix(s, "(Array Int ") {
		// ghost state indexed by a non-reference sort (e.g. the file system: path -> content): every index outside the listed ones
		inner := s[len("(Array "):]
		isort := inner[:skipSexp(inner)]
		var excl []string
		for _, l := range locs[n] {
			excl = append(excl, "(not (= fr.x "+l[0]+"))")
		}
		return "(forall ((fr.x " + isort + ")) (! (=> " + and(excl...) + " (= (select " + cur + " fr.x) (select " + init + " fr.x))) :pattern ((select " + cur + " fr.x))))"
	}
	if !strings.HasPrefix(s, "(Array Int ") {
		return eq(cur, init)
	}
	f0 := e.getIn(e.initSt, "frontier")
	var excl []string
	for _, l := range locs[n] {
		excl = append(excl, "(not (= fr.i "+l[0]+"))")
	}
	return "(forall ((fr.i Int)) (! (=> " + and(append([]string{"(< 0 fr.i)", "(< fr.i " + f0 + ")"}, excl...)...) + " (= (select " + cur + " fr.i) (select " + init + " fr.i))) :pattern ((select " + cur + " fr.i))))"
}

func frameExempt(n string) bool {
	return strings.HasPrefix(n, "cell.") || strings.HasPrefix(n, "defer.") || strings.HasPrefix(n, "iter.") || n == "frontier"
}

func (e *enc) frameCheck(x *ssa.Return) {
	allowed, _ := e.frameSpec()
	if allowed["*"] {
		return
	}
	var names []string
	for n := range e.state {
		names = append(names, n)
	}
	sortStrings(names)
	for _, n := range names {
		if allowed[n] || frameExempt(n) {
			continue
		}
		cur, init := e.state[n], e.getIn(e.initSt, n)
		if cur == init {
			continue
		}
		e.oblige("frame", fmt.Sprintf("%s @ret%d", n, e.retOrd), e.fc.frameProps(), "modifies clause: "+n+" unchanged outside the listed locations", e.frameGoal(n, cur), x.Pos())
	}
}

// stateVarByName resolves "H.<type>.<field>" given with the Go type name, e.g. "H.container/list.Element.Value".
func (e *enc) stateVarByName(n string) string {
	if _, ok := e.sorts[n]; ok {
		return n
	}
	// element memories and map arrays over the basic sorts are registered on demand:
	// Mem.<Sort>, MapDom.<K>.<V>, MapVal.<K>.<V>, MapLen.<K>.<V>
	basic := map[string]bool{"Int": true, "Bool": true, "String": true, "Real": true, "Slice": true, "Iface": true, "RVal": true, "RType": true}
	if strings.HasPrefix(n, "Mem.") && basic[n[4:]] {
		e.regState(n, "(Array Int (Array Int "+n[4:]+"))")
		return n
	}
	for _, pre := range []string{"MapDom.", "MapVal.", "MapLen."} {
		if strings.HasPrefix(n, pre) {
			kv := strings.Split(n[len(pre):], ".")
			if len(kv) == 2 && basic[kv[0]] && basic[kv[1]] {
				switch pre {
				case "MapDom.":
					e.regState(n, "(Array Int (Array "+kv[0]+" Bool))")
				case "MapVal.":
					e.regState(n, "(Array Int (Array "+kv[0]+" "+kv[1]+"))")
				default:
					e.regState(n, "(Array Int Int)")
				}
				return n
			}
		}
	}
	if strings.HasPrefix(n, "H.") {
		rest := n[2:]
		i := strings.LastIndex(rest, ".")
		if i > 0 {
			t := e.v.lookupType(rest[:i])
			if t != nil {
				if idx := e.te.FieldIndex(t, rest[i+1:]); idx >= 0 {
					return e.heapName(t, idx)
				}
			}
		}
	}
	return ""
}

func (fc *FuncContract) frameProps() []string {
	seen := map[string]bool{}
	var out []string
	for _, l := range [][]*Clause{fc.Ensures, fc.Proves, fc.Requires} {
		for _, c := range l {
			for _, p := range c.Props {
				if !seen[p] {
					seen[p] = true
					out = append(out, p)
				}
			}
		}
	}
	return out
}

func sortStrings(s []string) {
	for i := 1; i < len(s); i++ {
		for j := i; j > 0 && s[j] < s[j-1]; j-- {
			s[j], s[j-1] = s[j-1], s[j]
		}
	}
}

// ---------------------------------------------------------------------------
// builtins

func (e *enc) builtin(b *ssa.Builtin, c *ssa.CallCommon, site ssa.Instruction, pos token.Pos) []Val {
	args := e.callArgs(c)
	switch b.Name() {
	case "len":
		if gi, ok := e.guardOf[c.Args[0]]; ok {
			e.guardOblige(gi, false, "len of "+gi.what, pos)
		}
		a := args[0]
		switch t := c.Args[0].Type().Underlying().(type) {
		case *types.Basic:
			return []Val{{T: "(str.len " + a.T + ")", S: "Int", GT: types.Typ[types.Int]}}
		case *types.Slice:
			return []Val{{T: "(s-len " + a.T + ")", S: "Int", GT: types.Typ[types.Int]}}
		case *types.Map:
			_, _, ln, _, _ := e.mapNames(t)
			r := ite("(= "+a.T+" 0)", "0", sel(e.get(ln), a.T))
			rv := Val{T: e.define("len", "Int", r), S: "Int", GT: types.Typ[types.Int]}
			e.assumeHere("(>= " + rv.T + " 0)")
			return []Val{rv}
		case *types.Array:
			return []Val{{T: fmt.Sprint(t.Len()), S: "Int", GT: types.Typ[types.Int]}}
		case *types.Pointer:
			if arr, ok := t.Elem().Underlying().(*types.Array); ok {
				return []Val{{T: fmt.Sprint(arr.Len()), S: "Int", GT: types.Typ[types.Int]}}
			}
		}
	case "cap":
		a := args[0]
		if _, ok := c.Args[0].Type().Underlying().(*types.Slice); ok {
			return []Val{{T: "(s-cap " + a.T + ")", S: "Int", GT: types.Typ[types.Int]}}
		}
	case "append":
		return []Val{e.appendOp(c, args, site)}
	case "copy":
		return []Val{e.copyOp(c, args)}
	case "delete":
		if gi, ok := e.guardOf[c.Args[0]]; ok {
			e.guardOblige(gi, true, "delete from "+gi.what, pos)
		}
		m, k := args[0], args[1]
		mt := c.Args[0].Type().Underlying().(*types.Map)
		if k.S == "Iface" {
			e.safety("map-key-hashable", or("(= (i-tag "+k.T+") 0)", "(comparableTag (i-tag "+k.T+"))"), pos)
		}
		dom, _, ln, _, _ := e.mapNames(mt)
		nz := "(not (= " + m.T + " 0))"
		had := and(nz, sel(e.get(dom), m.T, k.T))
		e.set(ln, sto(e.get(ln), ite(had, "(- "+sel(e.get(ln), m.T)+" 1)", sel(e.get(ln), m.T)), m.T))
		e.set(dom, sto(e.get(dom), "false", m.T, k.T)) // m == nil: index 0 is never a live map
		return nil
	case "panic":
		e.safety("panic", "false", pos)
		return nil
	case "print", "println":
		return nil
	case "min", "max":
		if len(args) == 2 && args[0].S == "Int" {
			op := "<="
			if b.Name() == "max" {
				op = ">="
			}
			return []Val{{T: ite("("+op+" "+args[0].T+" "+args[1].T+")", args[0].T, args[1].T), S: "Int"}}
		}
	}
	e.errf("%s: unsupported builtin %s", e.name, b.Name())
	var res []Val
	for i, t := range e.resultTypes(c) {
		res = append(res, e.freshVal(fmt.Sprintf("bi%d", i), t))
	}
	return res
}

// append(s, xs...): in place when capacity suffices, else a fresh backing array.
func (e *enc) appendOp(c *ssa.CallCommon, args []Val, site ssa.Instruction) Val {
	s := args[0]
	st := c.Args[0].Type().Underlying().(*types.Slice)
	es := e.te.SortOf(st.Elem())
	mem := e.memName(es)
	// second operand: slice (variadic form) or string (append([]byte, string...))
	x := args[1]
	var n string
	var elemAt func(i string) string
	if x.S == "String" {
		n = "(str.len " + x.T + ")"
		elemAt = func(i string) string { return "(str.to_code (str.at " + x.T + " " + i + "))" }
	} else {
		n = "(s-len " + x.T + ")"
		xm := e.get(mem)
		elemAt = func(i string) string { return sel(xm, "(s-ptr "+x.T+")", "(sidx (s-off "+x.T+") "+i+")") }
	}
	name := "app"
	if v, ok := site.(ssa.Value); ok {
		name = "app." + v.Name()
	}
	newLen := "(+ (s-len " + s.T + ") " + n + ")"
	fits := "(<= " + newLen + " (s-cap " + s.T + "))"
	fitsC := e.define(name+".fits", "Bool", and(fits, "(not (= (s-ptr "+s.T+") 0))"))
	oldMem := e.get(mem)
	r := e.allocRef(name + ".ref")
	ptr := ite(fitsC, "(s-ptr "+s.T+")", r)
	off := ite(fitsC, "(s-off "+s.T+")", "0")
	newCap := e.freshConst(name+".cap", "Int")
	e.assumeHere(and("(>= "+newCap+" "+newLen+")", "(<= "+newCap+" 72057594037927936)", implies(fitsC, eq(newCap, "(s-cap "+s.T+")"))))
	// new backing array contents
	arr := e.freshConst(name+".arr", "(Array Int "+es+")")
	oldArr := sel(oldMem, "(s-ptr "+s.T+")")
	// constant small appends are expanded exactly; general case via quantified description
	if k, ok := constLen(c, x); ok && k <= 4 {
		// in-place: store k elements after the old ones; fresh: copy prefix + k elements
		inplace := oldArr
		for i := 0; i < k; i++ {
			inplace = "(store " + inplace + " (sidx (s-off " + s.T + ") (+ (s-len " + s.T + ") " + fmt.Sprint(i) + ")) " + elemAt(fmt.Sprint(i)) + ")"
		}
		e.assumeHere(implies(fitsC, eq(arr, inplace)))
	} else {
		e.assumeHere(implies(fitsC, "(forall ((i Int)) (! (= (select "+arr+" i) (ite (and (>= i (+ (s-off "+s.T+") (s-len "+s.T+"))) (< i (+ (s-off "+s.T+") "+newLen+"))) "+elemAt("(- i (+ (s-off "+s.T+") (s-len "+s.T+")))")+" (select "+oldArr+" i))) :pattern ((select "+arr+" i))))"))
	}
	e.assumeHere(implies(not(fitsC), "(forall ((i Int)) (! (=> (and (<= 0 i) (< i "+newLen+")) (= (select "+arr+" i) (ite (< i (s-len "+s.T+")) (select "+oldArr+" (sidx (s-off "+s.T+") i)) "+elemAt("(- i (s-len "+s.T+"))")+"))) :pattern ((select "+arr+" i))))"))
	e.set(mem, sto(oldMem, arr, ptr))
	term := "(mk-slice " + ptr + " " + off + " " + newLen + " " + newCap + ")"
	return Val{T: e.define(name, "Slice", term), S: "Slice", GT: c.Args[0].Type()}
}

func constLen(c *ssa.CallCommon, x Val) (int, bool) {
	// variadic argument built from `new [k]T; slice t[:]`
	if sl, ok := c.Args[1].(*ssa.Slice); ok {
		if al, ok := sl.X.(*ssa.Alloc); ok {
			if arr, ok := al.Type().(*types.Pointer).Elem().Underlying().(*types.Array); ok && sl.Low == nil && sl.High == nil {
				return int(arr.Len()), true
			}
		}
	}
	return 0, false
}

func (e *enc) copyOp(c *ssa.CallCommon, args []Val) Val {
	dst, src := args[0], args[1]
	st := c.Args[0].Type().Underlying().(*types.Slice)
	es := e.te.SortOf(st.Elem())
	mem := e.memName(es)
	var n, elemAt string
	if src.S == "String" {
		n = ite("(< (s-len "+dst.T+") (str.len "+src.T+"))", "(s-len "+dst.T+")", "(str.len "+src.T+")")
	} else {
		n = ite("(< (s-len "+dst.T+") (s-len "+src.T+"))", "(s-len "+dst.T+")", "(s-len "+src.T+")")
	}
	nc := e.define("copy.n", "Int", n)
	oldMem := e.get(mem)
	arr := e.freshConst("copy.arr", "(Array Int "+es+")")
	oldArr := sel(oldMem, "(s-ptr "+dst.T+")")
	if src.S == "String" {
		elemAt = "(str.to_code (str.at " + src.T + " (- i (s-off " + dst.T + "))))"
	} else {
		elemAt = sel(oldMem, "(s-ptr "+src.T+")", "(+ (s-off "+src.T+") (- i (s-off "+dst.T+")))")
	}
	e.assumeHere("(forall ((i Int)) (! (= (select " + arr + " i) (ite (and (>= i (s-off " + dst.T + ")) (< i (+ (s-off " + dst.T + ") " + nc + "))) " + elemAt + " (select " + oldArr + " i))) :pattern ((select " + arr + " i))))")
	e.set(mem, sto(oldMem, ite("(> "+nc+" 0)", arr, oldArr), "(s-ptr "+dst.T+")"))
	return Val{T: nc, S: "Int", GT: types.Typ[types.Int]}
}
