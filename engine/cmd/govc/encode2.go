package main

import (
	"fmt"
	"go/token"
	"go/types"
	"sort"
	"strings"

	"golang.org/x/tools/go/ssa"
)

type ssaGlobal = ssa.Global
type ssaFunction = ssa.Function

// ---------------------------------------------------------------------------
// per-function driver

func (v *Verifier) encodeFunction(fn *ssa.Function, fc *FuncContract) *enc {
	// pass 1: discover loop write sets (loop heads havoc everything)
	e1 := v.newEnc(fn, fc)
	e1.discover = true
	e1.run()
	// pass 2
	e2 := v.newEnc(fn, fc)
	e2.loopWrites = e1.loopWrites
	e2.run()
	return e2
}

func (v *Verifier) newEnc(fn *ssa.Function, fc *FuncContract) *enc {
	e := &enc{v: v, fn: fn, fc: fc, name: v.funcName(fn), te: v.te, declared: map[string]bool{},
		state: map[string]string{}, sorts: v.sorts, vers: map[string]int{}, vals: map[ssa.Value]Val{},
		reach: map[*ssa.BasicBlock]string{}, exitSt: map[*ssa.BasicBlock]map[string]string{},
		params: map[string]Val{}, dbg: map[string][]ssa.Value{}, callOrd: map[string]int{}, safeOrd: map[string]int{},
		loopWrites: map[*ssa.BasicBlock]map[string]bool{}, tuples: map[ssa.Value][]Val{}, deferArgs: map[*ssa.Defer][]Val{}, iters: map[*ssa.Range]string{},
		writeIdx: map[*ssa.BasicBlock]map[string][]string{}, rangeInfo: map[*ssa.Range]*rangeRec{}, guardOf: map[ssa.Value]guardInfo{}, declSeq: map[string]int{}, allocd: map[string]bool{}}
	e.safetyProps = v.safetyPropsFor(fn)
	return e
}

func (e *enc) havocAll() { e.havocAllN(true) }

func (e *enc) havocAllN(note bool) {
	var names []string
	for n := range e.sorts {
		names = append(names, n)
	}
	sort.Strings(names)
	for _, n := range names {
		if strings.HasPrefix(n, "defer.") || strings.HasPrefix(n, "cell.") || e.v.initOnlyGlobals[n] {
			// flags and local cells of this activation are not reachable by callees
			continue
		}
		if note {
			e.havoc(n)
		} else {
			e.havocQuiet(n)
		}
	}
	if note {
		e.noteWrite("*", "")
	}
	// the allocation frontier only grows
}

func (e *enc) entryEnv() *Env {
	return &Env{vars: e.params, cur: e.state, old: e.initSt, e: e}
}

// collectDebugRefs records, for every source-level variable, the SSA values that carry it anywhere in the
// function (a value may be named only by a reference that comes later in the block order than a loop head
// whose invariant mentions it; it is usable wherever its definition dominates).
func (e *enc) collectDebugRefs() {
	e.dbgObj = map[ssa.Value]map[string]types.Object{}
	e.collectDebugRefsIn(e.fn)
}

func (e *enc) collectDebugRefsIn(fn *ssa.Function) {
	for _, b := range fn.Blocks {
		for _, in := range b.Instrs {
			x, ok := in.(*ssa.DebugRef)
			if !ok {
				continue
			}
			obj := x.Object()
			if obj == nil {
				continue
			}
			if c, isConst := x.X.(*ssa.Const); isConst && c.Value == nil {
				continue // zero-value placeholder of a declaration
			}
			key := obj.Name()
			if x.IsAddr {
				key = "&" + key
			}
			dup := false
			for _, old := range e.dbg[key] {
				if old == x.X {
					dup = true
				}
			}
			if !dup {
				e.dbg[key] = append(e.dbg[key], x.X)
			}
			if e.dbgObj[x.X] == nil {
				e.dbgObj[x.X] = map[string]types.Object{}
			}
			e.dbgObj[x.X][key] = obj
		}
	}
}

func (e *enc) run() {
	fn := e.fn
	e.collectDebugRefs()
	e.findLoops()
	e.curReach = "true"
	// parameters
	for _, p := range fn.Params {
		s := e.te.SortOf(p.Type())
		n := "p." + symSafe(p.Name())
		e.declConst(n, s)
		e.inputs = append(e.inputs, n)
		e.assume(e.te.TypeInv(n, p.Type()))
		v := Val{T: n, S: s, GT: p.Type()}
		e.vals[p] = v
		e.params[p.Name()] = v
	}
	for _, fv := range fn.FreeVars {
		// captured variables are cells shared with the enclosing function
		if p, ok := fv.Type().(*types.Pointer); ok {
			name := "cell.fv." + symSafe(e.name) + "." + symSafe(fv.Name())
			e.regState(name, e.te.SortOf(p.Elem()))
			e.vals[fv] = Val{T: "0", S: "Int", GT: fv.Type(), A: &Addr{Root: "cell", Var: name, RT: p.Elem()}}
			continue
		}
		s := e.te.SortOf(fv.Type())
		n := "fv." + symSafe(fv.Name())
		e.declConst(n, s)
		e.vals[fv] = Val{T: n, S: s, GT: fv.Type()}
	}
	for _, b := range fn.Blocks {
		for _, in := range b.Instrs {
			if d, ok := in.(*ssa.Defer); ok {
				flag := e.deferFlag(d)
				e.state[flag] = "false"
			}
		}
	}
	e.regState("frontier", "Int")
	e.assume("(> " + e.get("frontier") + " 0)")
	// package-level variables that are only assigned during package initialisation with a non-nil value
	for g := range e.v.nonNilGlobals {
		e.regState(g, e.v.globalSorts[g])
		switch e.v.globalSorts[g] {
		case "Int":
			e.assume("(> " + e.get(g) + " 0)")
		case "Iface":
			e.assume("(not (= (i-tag " + e.get(g) + ") 0))")
			if sf, ok := e.v.ct.Specs["safeErr"]; ok && e.v.errNewGlobals[g] {
				// made by errors.New during package initialisation and never assigned again
				e.assume(e.specApp(sf, []Val{{T: e.get(g), S: "Iface"}}, nil).T)
			}
		case "RType":
			e.assume("(not (= " + e.get(g) + " rt.nil))")
		}
	}
	for _, p := range fn.Params {
		e.assumeAllocated(e.vals[p])
	}
	e.initSt = copyState(e.state)
	// axioms
	e.emitAxioms()
	// lets and requires
	e.lets = map[string]Val{}
	if e.fc != nil {
		env := e.entryEnv()
		for _, l := range e.fc.Lets {
			if v, ok := e.trVal(l.E, env, "let "+l.Name); ok {
				e.lets[l.Name] = Val{T: e.define("let."+l.Name, v.S, v.T), S: v.S, GT: v.GT}
			}
		}
		for _, r := range e.fc.Requires {
			e.assume(e.trBool(r.E, env, "requires"))
		}
	}
	// a function whose signature is that of a declared function type is only called through it:
	// the function type's preconditions hold on entry (they are obligations at every dynamic call)
	if ft := e.v.functypeFor(fn); ft != nil && (e.fc == nil || e.fc.Implements != "none") {
		vars := map[string]Val{}
		for i, p := range fn.Params {
			if i < len(ft.Params) {
				vars[ft.Params[i]] = e.vals[p]
			}
		}
		env := &Env{vars: vars, cur: e.state, old: e.initSt, e: e}
		for _, r := range ft.Requires {
			e.assume(e.trBool(r.E, env, "functype requires"))
		}
	}
	e.initSt = copyState(e.state)
	e.entryLets = e.lets
	// blocks
	for _, b := range e.rpo() {
		e.block(b)
	}
	if e.fc != nil && !e.discover {
		for _, nc := range e.fc.NeverCalls {
			for _, f := range strings.Fields(nc.Callee) {
				g := "true"
				if e.callOrd[f] > 0 {
					g = "false"
				}
				saved := e.curReach
				e.curReach = "true"
				e.oblige1("assert", "never-calls "+f+" "+clauseName(nc), nc.Props, nc.Src, g, token.NoPos)
				e.curReach = saved
			}
		}
	}
	// vacuity guard: a call-site or loop clause that names a call site / loop the function does not have states nothing
	if e.fc != nil && !e.discover {
		for _, ca := range e.fc.CallAsrt {
			if !e.matchedCA[ca] {
				e.errf("%s: clause 'at call %s#%d' (%s) matches no call site", e.name, ca.Callee, ca.CallK, clauseName(ca))
			}
		}
		nLoops := len(e.loops)
		for k := range e.fc.Loops {
			if k >= nLoops {
				e.errf("%s: loop#%d clause but the function has %d loops", e.name, k, nLoops)
			}
		}
	}
	e.finishFrames()
}

// finishFrames fills in the loop-frame facts: a location of an array-sorted state variable that
// existed before the loop and is not written inside it keeps its pre-loop value at the loop head.
// Only writes whose first-level index is loop-invariant (declared before the head) or a reference
// allocated inside the loop can be excluded; any other write disables the fact for that variable.
func (e *enc) finishFrames() {
	for _, fr := range e.frames {
		idxs := e.writeIdx[fr.head][fr.name]
		ok := true
		var excl []string
		seen := map[string]bool{}
		for _, t := range idxs {
			if t == "*" {
				ok = false
				break
			}
			if e.allocd[t] && e.declSeq[t] > fr.headSeq {
				continue // allocated inside the loop: not a pre-existing location
			}
			if !e.termInvariant(t, fr.headSeq) {
				ok = false
				break
			}
			t = e.expandDefs(t, fr.headSeq, 0)
			if !seen[t] {
				seen[t] = true
				excl = append(excl, "(not (= fr.i "+t+"))")
			}
		}
		if !ok {
			continue
		}
		cond := and(append([]string{"(< fr.i " + fr.front + ")"}, excl...)...)
		e.body[fr.line] = "(assert (forall ((fr.i Int)) (! (=> " + cond + " (= (select " + fr.post + " fr.i) (select " + fr.pre + " fr.i))) :pattern ((select " + fr.post + " fr.i)))))"
	}
}

// termInvariant: every declared symbol occurring in the term was declared before sequence number seq.
func (e *enc) termInvariant(t string, seq int) bool {
	return e.termInv(t, seq, 0)
}

func (e *enc) termInv(t string, seq int, depth int) bool {
	if depth > 8 {
		return false
	}
	for _, tokn := range strings.FieldsFunc(t, func(r rune) bool { return r == '(' || r == ')' || r == ' ' }) {
		if s, ok := e.declSeq[tokn]; ok && s > seq {
			// a named sub-term introduced later is fine if its definition is itself invariant
			if d, isDef := e.defs[tokn]; isDef && e.termInv(d, seq, depth+1) {
				continue
			}
			return false
		}
	}
	return true
}

// expandDefs replaces defined names by their definitions (used when a term must be stated
// before the point where the name was introduced).
func (e *enc) expandDefs(t string, seq int, depth int) string {
	if depth > 8 {
		return t
	}
	var b strings.Builder
	i := 0
	for i < len(t) {
		c := t[i]
		if c == '(' || c == ')' || c == ' ' {
			b.WriteByte(c)
			i++
			continue
		}
		j := i
		for j < len(t) && t[j] != '(' && t[j] != ')' && t[j] != ' ' {
			j++
		}
		tokn := t[i:j]
		if s, ok := e.declSeq[tokn]; ok && s > seq {
			if d, isDef := e.defs[tokn]; isDef {
				b.WriteString(e.expandDefs(d, seq, depth+1))
				i = j
				continue
			}
		}
		b.WriteString(tokn)
		i = j
	}
	return b.String()
}

func (e *enc) assumeAllocated(v Val) {
	switch v.S {
	case "Int":
		if v.GT != nil {
			switch v.GT.Underlying().(type) {
			case *types.Pointer, *types.Map:
				e.assume("(< " + v.T + " " + e.get("frontier") + ")")
			}
		}
	case "Slice":
		e.assume("(< (s-ptr " + v.T + ") " + e.get("frontier") + ")")
	}
}

func (e *enc) emitAxioms() {
	env := &Env{vars: map[string]Val{}, cur: e.state, e: e}
	for _, ax := range e.v.ct.Axioms {
		saved := e.lets
		e.lets = nil
		t := e.trBool(ax.E, env, "axiom "+ax.Label)
		e.lets = saved
		e.assume(t)
	}
}

func (e *enc) block(b *ssa.BasicBlock) {
	e.curBlock = b
	li := e.loops[b]
	// incoming edges (forward only)
	type inc struct {
		from *ssa.BasicBlock
		cond string
		idx  int
	}
	var ins []inc
	for i, p := range b.Preds {
		if isBackEdge(p, b) {
			continue
		}
		if _, done := e.exitSt[p]; !done {
			continue // unreachable predecessor
		}
		ins = append(ins, inc{p, e.edgeCond(p, b), i})
	}
	if len(e.inl) > 0 && e.inl[len(e.inl)-1].entry == b {
		// entry block of a helper encoded in place: reached when the call is, in the state at the call
		e.reach[b] = e.inl[len(e.inl)-1].reach
	} else if b.Index == 0 {
		e.reach[b] = "true"
	} else {
		if len(ins) == 0 {
			e.reach[b] = "false"
			e.exitSt[b] = copyState(e.state)
			// still bind values so later uses do not crash
			e.curReach = "false"
			e.instrs(b, nil)
			return
		}
		var conds []string
		for _, in := range ins {
			conds = append(conds, in.cond)
		}
		r := or(conds...)
		e.reach[b] = e.define(fmt.Sprintf("reach.b%d", b.Index), "Bool", r)
		// merge states
		merged := map[string]string{}
		keys := map[string]bool{}
		for _, in := range ins {
			for k := range e.exitSt[in.from] {
				keys[k] = true
			}
		}
		var ks []string
		for k := range keys {
			ks = append(ks, k)
		}
		sort.Strings(ks)
		e.state = merged
		for _, k := range ks {
			t := e.getIn(e.exitSt[ins[len(ins)-1].from], k)
			same := true
			for i := len(ins) - 2; i >= 0; i-- {
				ti := e.getIn(e.exitSt[ins[i].from], k)
				if ti != t {
					same = false
				}
				t2 := ite(ins[i].cond, ti, t)
				t = t2
			}
			if same {
				merged[k] = e.getIn(e.exitSt[ins[0].from], k)
			} else {
				e.vers[k]++
				n := fmt.Sprintf("%s!m%d", symSafe(k), e.vers[k])
				e.declConst(n, e.stateSort(k))
				e.assume(eq(n, t))
				merged[k] = n
			}
		}
	}
	e.curReach = e.reach[b]
	phiVal := func(phi *ssa.Phi) string {
		t := ""
		for i := len(ins) - 1; i >= 0; i-- {
			x := e.val(phi.Edges[ins[i].idx]).T
			if t == "" {
				t = x
			} else {
				t = ite(ins[i].cond, x, t)
			}
		}
		return t
	}
	if li != nil {
		e.loopHead(b, li, phiVal)
	}
	e.instrs(b, func(phi *ssa.Phi) Val {
		if li != nil {
			return e.vals[phi]
		}
		s := e.te.SortOf(phi.Type())
		return Val{T: e.define("phi."+phi.Name(), s, phiVal(phi)), S: s, GT: phi.Type()}
	})
}

// names visible to loop clauses at head h: parameters, phis by source name, dominating debug refs.
func (e *enc) loopEnv(h *ssa.BasicBlock, phiOverride map[*ssa.Phi]Val) *Env {
	vars := map[string]Val{}
	for k, v := range e.params {
		vars[k] = v
		vars[k+"$0"] = v // entry value of the parameter (the plain name may be shadowed by a loop-carried variable)
	}
	lpos := e.loopPos(h)
	for name, vs := range e.dbg {
		if val, ok := e.pickNamed(name, vs, h, true, lpos); ok {
			vars[name] = val
		}
	}
	// loop-carried variables of the enclosing loops (their header phis dominate this head), outermost first
	var outer []*ssa.BasicBlock
	for h2, l2 := range e.loops {
		if h2 != h && l2.blocks[h] {
			outer = append(outer, h2)
		}
	}
	sort.Slice(outer, func(a, b int) bool { return len(e.loops[outer[a]].blocks) > len(e.loops[outer[b]].blocks) })
	for _, h2 := range outer {
		for _, in := range h2.Instrs {
			phi, ok := in.(*ssa.Phi)
			if !ok {
				break
			}
			if phi.Comment == "" || phi.Comment == "rangeindex" {
				continue
			}
			if val, ok := e.vals[phi]; ok {
				vars[phi.Comment] = val
			}
		}
	}
	for _, in := range h.Instrs {
		phi, ok := in.(*ssa.Phi)
		if !ok {
			break
		}
		name := phi.Comment
		if name == "" {
			name = phi.Name()
		}
		// name$pre: the variable's value when the loop was entered (the phi's edge from outside the loop)
		if li := e.loops[h]; li != nil {
			var pre ssa.Value
			nOut := 0
			for i, pr := range h.Preds {
				if !li.blocks[pr] && i < len(phi.Edges) {
					pre = phi.Edges[i]
					nOut++
				}
			}
			if nOut == 1 {
				_, isConst := pre.(*ssa.Const)
				if _, bound := e.vals[pre]; bound || isConst {
					vars[name+"$pre"] = e.val(pre)
				}
			}
		}
		if ov, ok := phiOverride[phi]; ok {
			vars[name] = ov
			vars[phi.Name()] = ov
		} else if val, ok := e.vals[phi]; ok {
			vars[name] = val
			vars[phi.Name()] = val
		}
	}
	return &Env{vars: vars, cur: e.state, old: e.initSt, e: e}
}

// enclosingReach: reach condition of the header of the innermost loop that contains b (other than self); "true" at
// function level. entered_when / reached_when conditions are stated relative to one execution of that loop's body.
func (e *enc) enclosingReach(b *ssa.BasicBlock, self *loopInfo) string {
	var best *loopInfo
	var bestH *ssa.BasicBlock
	for h, li := range e.loops {
		if li == self {
			continue
		}
		// b belongs to one execution of the loop body if it is in the natural loop, or (a block that ends in break/return)
		// if it is dominated by the body's entry block rather than reached through the header's exit edge
		in := li.blocks[b]
		if !in {
			for _, s := range h.Succs {
				if li.blocks[s] && s != h && (s == b || s.Dominates(b)) {
					in = true
				}
			}
		}
		if !in {
			continue
		}
		if best == nil || len(li.blocks) < len(best.blocks) {
			best, bestH = li, h
		}
	}
	if best == nil {
		return "true"
	}
	// the header was reached and its loop condition let this iteration in
	var conds []string
	for _, s := range bestH.Succs {
		if best.blocks[s] && s != bestH {
			conds = append(conds, e.edgeCond(bestH, s))
		}
	}
	if len(conds) == 0 {
		return e.reach[bestH]
	}
	return or(conds...)
}

func (e *enc) loopClauses(li *loopInfo) (inv []*Clause, dec *Clause) {
	if e.fc != nil {
		for _, c := range e.fc.Loops[li.ord] {
			switch c.Kind {
			case "decreases":
				dec = c
			case "exhaustive", "entered_when":
			default:
				inv = append(inv, c)
			}
		}
	}
	return
}

// exhaustiveChecks: for a loop declared exhaustive, every edge that leaves the loop from a block other than the loop
// header (a break, a return, a goto out of the body) must be unreachable.
func (e *enc) exhaustiveChecks(b *ssa.BasicBlock) {
	if e.fc == nil {
		return
	}
	for h, li := range e.loops {
		if !li.blocks[b] || b == h {
			continue
		}
		var cl *Clause
		for _, c := range e.fc.Loops[li.ord] {
			if c.Kind == "exhaustive" {
				cl = c
			}
		}
		if cl == nil {
			continue
		}
		leaves := false
		var conds []string
		for _, s := range b.Succs {
			if !li.blocks[s] {
				leaves = true
				conds = append(conds, e.edgeCond(b, s))
			}
		}
		if len(b.Succs) == 0 && e.reach[b] != "false" { // return / panic inside the loop
			leaves = true
			conds = append(conds, e.reach[b])
		}
		if !leaves {
			continue
		}
		saved := e.curReach
		e.curReach = "true"
		e.oblige("assert", fmt.Sprintf("loop#%d exhaustive %s b%d", li.ord, clauseName(cl), b.Index), cl.Props,
			"the loop is left only through its own condition (every element is visited): no break/return out of the body", not(or(conds...)), token.NoPos)
		e.curReach = saved
	}
}

// autoInvariants: for a header phi of the form phi = [c, phi + k] (k > 0 constant): phi >= c.
func (e *enc) autoInvariants(h *ssa.BasicBlock, valOf func(phi *ssa.Phi) string) []string {
	var out []string
	for _, in := range h.Instrs {
		phi, ok := in.(*ssa.Phi)
		if !ok {
			break
		}
		if b, ok := phi.Type().Underlying().(*types.Basic); !ok || b.Info()&types.IsInteger == 0 {
			continue
		}
		var init *ssa.Const
		stepOK := true
		for i, ed := range phi.Edges {
			if isBackEdge(h.Preds[i], h) {
				bo, ok := ed.(*ssa.BinOp)
				if !ok || bo.Op != token.ADD || bo.X != ssa.Value(phi) {
					stepOK = false
					break
				}
				c, ok := bo.Y.(*ssa.Const)
				if !ok || c.Value == nil || c.Int64() <= 0 {
					stepOK = false
				}
			} else {
				c, ok := ed.(*ssa.Const)
				if !ok {
					stepOK = false
					break
				}
				init = c
			}
		}
		if stepOK && init != nil {
			out = append(out, "(>= "+valOf(phi)+" "+e.constVal(init).T+")")
		}
		// canonical lowering of `range` over a slice/array/string index: idx < len
		if phi.Comment == "rangeindex" {
			if ifi, ok := h.Instrs[len(h.Instrs)-1].(*ssa.If); ok {
				if bo, ok := ifi.Cond.(*ssa.BinOp); ok && bo.Op == token.LSS {
					if _, known := e.vals[bo.Y]; known || isConst(bo.Y) {
						out = append(out, "(< "+valOf(phi)+" "+e.val(bo.Y).T+")")
					}
				}
			}
		}
	}
	return out
}

func isConst(v ssa.Value) bool { _, ok := v.(*ssa.Const); return ok }

func (e *enc) loopHead(h *ssa.BasicBlock, li *loopInfo, entryPhi func(*ssa.Phi) string) {
	inv, dec := e.loopClauses(li)
	// 1. invariants hold on entry
	over := map[*ssa.Phi]Val{}
	for _, in := range h.Instrs {
		phi, ok := in.(*ssa.Phi)
		if !ok {
			break
		}
		s := e.te.SortOf(phi.Type())
		over[phi] = Val{T: entryPhi(phi), S: s, GT: phi.Type()}
	}
	envIn := e.loopEnv(h, over)
	for _, c := range inv {
		g := e.trBool(c.E, envIn, fmt.Sprintf("loop#%d invariant", li.ord))
		e.oblige("invariant-init", fmt.Sprintf("loop#%d %s", li.ord, clauseName(c)), c.Props, c.Src, g, token.NoPos)
	}
	for i, g := range e.autoInvariants(h, func(p *ssa.Phi) string { return over[p].T }) {
		e.oblige("invariant-init", fmt.Sprintf("loop#%d auto%d", li.ord, i), nil, "counter lower bound", g, token.NoPos)
	}
	if e.fc != nil {
		for _, c := range e.fc.Loops[li.ord] {
			if c.Kind == "entered_when" {
				g := e.trBool(c.E, envIn, fmt.Sprintf("loop#%d entered_when", li.ord))
				saved := e.curReach
				e.curReach = "true"
				e.oblige1("assert", fmt.Sprintf("loop#%d entered %s", li.ord, clauseName(c)), c.Props, c.Src, "(=> "+and(g, e.enclosingReach(h, li))+" "+saved+")", token.NoPos)
				e.curReach = saved
			}
			if c.Kind == "exhaustive" {
				// marker (keeps the label alive when the loop has no leaving edge to check); the edges are checked in exhaustiveChecks
				e.oblige1("assert", fmt.Sprintf("loop#%d exhaustive %s declared", li.ord, clauseName(c)), c.Props, "the loop is declared exhaustive", "true", token.NoPos)
			}
		}
	}
	// 2. havoc
	frontierAtEntry := ""
	if _, ok := e.sorts["frontier"]; ok {
		frontierAtEntry = e.get("frontier")
	}
	if e.discover || e.loopWrites[h]["*"] {
		e.havocAllN(false)
	} else {
		var names []string
		for n := range e.loopWrites[h] {
			names = append(names, n)
		}
		sort.Strings(names)
		front := e.get("frontier")
		framed := e.framedVars(names)
		// the function's frame (modifies clause) is an automatic loop invariant: init
		for _, n := range framed {
			if pre := e.get(n); pre != e.getIn(e.initSt, n) {
				e.oblige("invariant-init", fmt.Sprintf("loop#%d frame %s", li.ord, n), e.fc.frameProps(), "modifies clause holds at loop entry: "+n, e.frameGoal(n, pre), token.NoPos)
			}
		}
		for _, n := range names {
			pre := e.get(n)
			post := e.havocQuiet(n)
			if strings.HasPrefix(e.stateSort(n), "(Array Int ") {
				e.frames = append(e.frames, frameRec{line: len(e.body), head: h, name: n, pre: pre, post: post, headSeq: e.seq, front: front, reach: e.curReach})
				e.body = append(e.body, "(assert true)")
			}
		}
		for _, n := range framed {
			e.assumeHere(e.frameGoal(n, e.get(n)))
		}
		li.framed = framed
	}
	if _, ok := e.sorts["frontier"]; ok && (e.discover || e.loopWrites[h]["frontier"] || e.loopWrites[h]["*"]) {
		// frontier only grows
		e.assume("(>= " + e.get("frontier") + " " + e.getIn(e.initSt, "frontier") + ")")
		if frontierAtEntry != "" && frontierAtEntry != e.get("frontier") {
			e.assume("(>= " + e.get("frontier") + " " + frontierAtEntry + ")")
		}
	}
	for _, in := range h.Instrs {
		phi, ok := in.(*ssa.Phi)
		if !ok {
			break
		}
		fv := e.freshVal("loop."+phi.Name(), phi.Type())
		e.vals[phi] = fv
		e.assumeAllocatedNow(fv) // a reference carried around the loop was allocated before this point
	}
	// 3. assume invariants
	envH := e.loopEnv(h, nil)
	for _, c := range inv {
		e.assumeHere(e.trBool(c.E, envH, "loop invariant"))
	}
	for _, g := range e.autoInvariants(h, func(p *ssa.Phi) string { return e.vals[p].T }) {
		e.assumeHere(g)
	}
	if dec != nil {
		if m, ok := e.trVal(dec.E, envH, "decreases"); ok {
			li.measure = e.define(fmt.Sprintf("measure.l%d", li.ord), "Int", m.T)
		}
	}
}

func clauseName(c *Clause) string {
	if c.Name != "" {
		return c.Name
	}
	if c.Label != "" {
		return c.Label
	}
	return fmt.Sprintf("L%d", c.Line)
}

// backEdge: invariants preserved at a latch -> head edge.
func (e *enc) backEdge(from, h *ssa.BasicBlock) {
	li := e.loops[h]
	inv, dec := e.loopClauses(li)
	cond := e.edgeCond(from, h)
	predIdx := -1
	for i, p := range h.Preds {
		if p == from {
			predIdx = i
		}
	}
	over := map[*ssa.Phi]Val{}
	for _, in := range h.Instrs {
		phi, ok := in.(*ssa.Phi)
		if !ok {
			break
		}
		over[phi] = e.val(phi.Edges[predIdx])
	}
	saved := e.curReach
	e.curReach = cond
	env := e.loopEnv(h, over)
	for _, c := range inv {
		g := e.trBool(c.E, env, "loop invariant (preserve)")
		e.oblige("invariant-preserve", fmt.Sprintf("loop#%d %s", li.ord, clauseName(c)), c.Props, c.Src, g, token.NoPos)
	}
	for i, g := range e.autoInvariants(h, func(p *ssa.Phi) string { return over[p].T }) {
		e.oblige("invariant-preserve", fmt.Sprintf("loop#%d auto%d", li.ord, i), nil, "counter lower bound", g, token.NoPos)
	}
	for _, n := range li.framed {
		e.oblige("invariant-preserve", fmt.Sprintf("loop#%d frame %s", li.ord, n), e.fc.frameProps(), "modifies clause preserved by the loop body: "+n, e.frameGoal(n, e.get(n)), token.NoPos)
	}
	if dec != nil && li.measure != "" {
		if m, ok := e.trVal(dec.E, env, "decreases"); ok {
			e.oblige("decreases", fmt.Sprintf("loop#%d", li.ord), dec.Props, dec.Src, and("(< "+m.T+" "+li.measure+")", "(>= "+li.measure+" 0)"), token.NoPos)
		}
	}
	e.curReach = saved
}

func (e *enc) instrs(b *ssa.BasicBlock, phiFn func(*ssa.Phi) Val) {
	for _, in := range b.Instrs {
		if phi, ok := in.(*ssa.Phi); ok {
			if phiFn != nil {
				e.bind(phi, phiFn(phi))
			} else {
				e.bind(phi, e.freshVal("dead."+phi.Name(), phi.Type()))
			}
			continue
		}
		e.instr(in)
	}
	e.exitSt[b] = copyState(e.state)
	e.exhaustiveChecks(b)
	for _, s := range b.Succs {
		if isBackEdge(b, s) && e.reach[b] != "false" {
			e.backEdge(b, s)
		}
	}
}

// ---------------------------------------------------------------------------
// instructions

func (e *enc) instr(in ssa.Instruction) {
	if p := in.Pos(); p.IsValid() {
		e.curPos = p
	}
	switch x := in.(type) {
	case *ssa.DebugRef:
		if id, ok := x.Expr.(interface{ String() string }); ok {
			_ = id
		}
		// source names are collected up front (collectDebugRefs)
	case *ssa.If, *ssa.Jump:
	case *ssa.Return:
		if len(e.inl) > 0 {
			e.inlineReturn(x)
		} else {
			e.ret(x)
		}
	case *ssa.UnOp:
		e.unop(x)
	case *ssa.BinOp:
		e.binop(x)
	case *ssa.Call:
		res := e.call(x.Common(), x, x.Pos())
		e.bindCall(x, res)
	case *ssa.Extract:
		tup := e.vals[x.Tuple]
		if tup.S != "Tuple" || e.tuples[x.Tuple] == nil || x.Index >= len(e.tuples[x.Tuple]) {
			e.errf("%s: extract from unknown tuple %s", e.name, x.Tuple.Name())
			e.bind(x, e.freshVal("ext", x.Type()))
			return
		}
		e.bind(x, e.tuples[x.Tuple][x.Index])
	case *ssa.Alloc:
		e.alloc(x)
	case *ssa.Store:
		e.store(x)
	case *ssa.FieldAddr:
		base := e.val(x.X)
		pt := x.X.Type().Underlying().(*types.Pointer).Elem()
		if base.A == nil {
			e.safety("nil-deref", "(not (= "+base.T+" 0))", x.Pos())
		}
		if isOpaqueStruct(pt) {
			// field of an opaque stdlib struct: identity only
			e.bind(x, Val{T: "(fieldloc " + base.T + " " + fmt.Sprint(x.Field) + ")", S: "Int", GT: x.Type(), A: &Addr{Root: "opaque", Base: base.T}})
			e.declFun("fieldloc", []Sort{"Int", "Int"}, "Int")
			return
		}
		var a Addr
		if base.A != nil {
			a = *base.A
			a.Path = append(append([]pathStep{}, a.Path...), pathStep{field: x.Field, ct: pt})
		} else {
			a = Addr{Root: "ref", Base: base.T, RT: pt, Path: []pathStep{{field: x.Field, ct: pt}}}
		}
		e.declFun("fieldloc", []Sort{"Int", "Int"}, "Int")
		e.bind(x, Val{T: "(fieldloc " + base.T + " " + fmt.Sprint(x.Field) + ")", S: "Int", GT: x.Type(), A: &a})
	case *ssa.Field:
		base := e.val(x.X)
		si := e.te.structOf(x.X.Type())
		ft := x.X.Type().Underlying().(*types.Struct).Field(x.Field).Type()
		e.bind(x, Val{T: "(" + si.fields[x.Field] + " " + base.T + ")", S: e.te.SortOf(ft), GT: ft})
	case *ssa.IndexAddr:
		e.indexAddr(x)
	case *ssa.Index:
		base := e.val(x.X)
		idx := e.val(x.Index)
		switch t := x.X.Type().Underlying().(type) {
		case *types.Basic: // string
			e.safety("index", and("(>= "+idx.T+" 0)", "(< "+idx.T+" (str.len "+base.T+"))"), x.Pos())
			e.bind(x, e.strByte(base.T, idx.T, x.Type()))
		case *types.Array:
			e.safety("index", and("(>= "+idx.T+" 0)", "(< "+idx.T+" "+fmt.Sprint(t.Len())+")"), x.Pos())
			e.bind(x, Val{T: sel(base.T, idx.T), S: e.te.SortOf(t.Elem()), GT: t.Elem()})
		default:
			e.errf("%s: unsupported Index on %s", e.name, x.X.Type())
			e.bind(x, e.freshVal("idx", x.Type()))
		}
	case *ssa.Slice:
		e.sliceOp(x)
	case *ssa.MakeSlice:
		ln := e.val(x.Len)
		cp := e.val(x.Cap)
		e.safety("makeslice", and("(>= "+ln.T+" 0)", "(>= "+cp.T+" "+ln.T+")"), x.Pos())
		el := x.Type().Underlying().(*types.Slice).Elem()
		es := e.te.SortOf(el)
		mem := e.memName(es)
		r := e.allocRef("mk." + x.Name())
		e.set(mem, sto(e.get(mem), e.constArr(es, e.te.Zero(el)), r))
		e.bind(x, Val{T: "(mk-slice " + r + " 0 " + ln.T + " " + cp.T + ")", S: "Slice", GT: x.Type()})
	case *ssa.MakeMap:
		m := x.Type().Underlying().(*types.Map)
		dom, val, ln, ks, _ := e.mapNames(m)
		r := e.allocRef("map." + x.Name())
		e.set(dom, sto(e.get(dom), "((as const (Array "+ks+" Bool)) false)", r))
		e.set(ln, sto(e.get(ln), "0", r))
		_ = val
		e.bind(x, Val{T: r, S: "Int", GT: x.Type()})
	case *ssa.MapUpdate:
		e.mapUpdate(x)
	case *ssa.Lookup:
		e.lookup(x)
	case *ssa.MakeInterface:
		v := e.val(x.X)
		e.useBox(v.S)
		tag := e.te.TagOf(x.X.Type())
		e.bind(x, Val{T: fmt.Sprintf("(mk-iface %d (%s %s))", tag, boxFn(v.S), v.T), S: "Iface", GT: x.Type()})
	case *ssa.ChangeInterface:
		v := e.val(x.X)
		e.bind(x, Val{T: v.T, S: v.S, GT: x.Type()})
	case *ssa.ChangeType:
		v := e.val(x.X)
		v.GT = x.Type()
		e.bind(x, v)
	case *ssa.Convert:
		e.convert(x)
	case *ssa.TypeAssert:
		e.typeAssert(x)
	case *ssa.MakeClosure:
		f := x.Fn.(*ssa.Function)
		e.bind(x, Val{T: fmt.Sprint(e.v.funcID(f)), S: "Int", GT: x.Type(), Fn: f})
	case *ssa.Defer:
		flag := e.deferFlag(x)
		e.set(flag, "true")
		e.defers = append(e.defers, deferRec{x, flag})
		// arguments are evaluated now
		e.deferArgs[x] = e.callArgs(x.Common())
	case *ssa.RunDefers:
		e.runDefers()
	case *ssa.Range:
		e.rangeInit(x)
	case *ssa.Next:
		e.next(x)
	case *ssa.Panic:
		e.safety("panic", "false", x.Pos())
	case *ssa.Go, *ssa.Select, *ssa.Send, *ssa.MakeChan:
		e.errf("%s: unsupported/%T", e.name, in)
	default:
		e.errf("%s: unsupported instruction %T: %s", e.name, in, in.String())
		if v, ok := in.(ssa.Value); ok {
			e.bind(v, e.freshVal("unsup", v.Type()))
		}
	}
}

func (e *enc) bindCall(x *ssa.Call, res []Val) {
	switch len(res) {
	case 0:
		e.bind(x, Val{T: "0", S: "Int", GT: x.Type()})
	case 1:
		if _, isTuple := x.Type().(*types.Tuple); isTuple {
			e.tuples[x] = res
			e.bind(x, Val{T: "tuple", S: "Tuple", GT: x.Type()})
			return
		}
		r := res[0]
		r.GT = x.Type()
		e.bind(x, r)
	default:
		e.tuples[x] = res
		e.bind(x, Val{T: "tuple", S: "Tuple", GT: x.Type()})
	}
}

func (e *enc) alloc(x *ssa.Alloc) {
	el := x.Type().(*types.Pointer).Elem()
	if _, ok := el.Underlying().(*types.Struct); ok && !isOpaqueStruct(el) {
		if !x.Heap {
			// local struct variable: a cell holding a struct value
			name := e.cellName(x)
			e.set(name, e.te.Zero(el))
			e.bind(x, Val{T: "0", S: "Int", GT: x.Type(), A: &Addr{Root: "cell", Var: name, RT: el}})
			return
		}
		r := e.allocRef("new." + x.Name())
		st := el.Underlying().(*types.Struct)
		for i := 0; i < st.NumFields(); i++ {
			h := e.heapName(el, i)
			e.set(h, sto(e.get(h), e.te.Zero(st.Field(i).Type()), r))
		}
		e.bind(x, Val{T: r, S: "Int", GT: x.Type()})
		return
	}
	if a, ok := el.Underlying().(*types.Array); ok {
		es := e.te.SortOf(a.Elem())
		mem := e.memName(es)
		r := e.allocRef("arr." + x.Name())
		e.set(mem, sto(e.get(mem), e.constArr(es, e.te.Zero(a.Elem())), r))
		e.bind(x, Val{T: r, S: "Int", GT: x.Type()})
		return
	}
	if isOpaqueStruct(el) {
		r := e.allocRef("new." + x.Name())
		e.bind(x, Val{T: r, S: "Int", GT: x.Type()})
		e.newOpaque(r, el)
		return
	}
	if x.Heap {
		// escaping scalar cell: lives in Cell.<sort>
		s := e.te.SortOf(el)
		name := "Cell." + sortKey(s)
		e.regState(name, "(Array Int (Array Int "+s+"))")
		r := e.allocRef("new." + x.Name())
		e.set(name, sto(e.get(name), e.te.Zero(el), r, "0"))
		e.bind(x, Val{T: r, S: "Int", GT: x.Type()})
		return
	}
	name := e.cellName(x)
	e.set(name, e.te.Zero(el))
	e.bind(x, Val{T: "0", S: "Int", GT: x.Type(), A: &Addr{Root: "cell", Var: name, RT: el}})
}

// newOpaque initialises ghost state of freshly allocated stdlib objects.
func (e *enc) newOpaque(r string, t types.Type) {
	if isNamed(t, "strings", "Builder") {
		for _, g := range []string{"sb.content", "sb.nw"} {
			if gv, ok := e.v.ct.Ghosts[g]; ok {
				e.regGhost(gv)
				z := "\"\""
				if gv.Val == "Int" {
					z = "0"
				}
				e.set(g, sto(e.get(g), z, r))
			}
		}
	}
}

func (e *enc) store(x *ssa.Store) {
	addr := e.val(x.Addr)
	v := e.val(x.Val)
	pt := x.Addr.Type().Underlying().(*types.Pointer).Elem()
	a := addr.A
	if a == nil {
		e.safety("nil-deref", "(not (= "+addr.T+" 0))", x.Pos())
		a = e.addrOf(addr, pt)
	}
	if a == nil || a.Root == "opaque" {
		e.errf("%s: store through unsupported pointer %s", e.name, x.Addr.Name())
		return
	}
	e.guardCheck(a, true, x.Pos())
	e.storeAddr(a, v.T)
}

func (e *enc) unop(x *ssa.UnOp) {
	v := e.val(x.X)
	switch x.Op {
	case token.MUL: // load
		pt := x.X.Type().Underlying().(*types.Pointer).Elem()
		a := v.A
		if a == nil {
			e.safety("nil-deref", "(not (= "+v.T+" 0))", x.Pos())
			a = e.addrOf(v, pt)
		}
		if a == nil || a.Root == "opaque" {
			if isOpaqueStruct(pt) {
				e.bind(x, Val{T: v.T, S: "Int", GT: pt})
				return
			}
			e.errf("%s: load through unsupported pointer %s", e.name, x.X.Name())
			e.bind(x, e.freshVal("load", x.Type()))
			return
		}
		e.guardCheck(a, false, x.Pos())
		t, ty := e.loadAddr(a)
		s := e.te.SortOf(ty)
		r := Val{T: e.define("ld."+x.Name(), s, t), S: s, GT: x.Type()}
		e.bind(x, r)
		e.loadedFacts(r, a)
		if gi, ok := e.guardedField(a); ok {
			e.guardOf[x] = gi
		}
	case token.NOT:
		e.bind(x, Val{T: not(v.T), S: "Bool", GT: x.Type()})
	case token.SUB:
		if v.S == "Real" {
			e.bind(x, Val{T: "(- " + v.T + ")", S: "Real", GT: x.Type()})
		} else {
			e.bind(x, Val{T: wrapTo("(- "+v.T+")", x.Type()), S: "Int", GT: x.Type()})
		}
	case token.XOR:
		bits, signed := intBits(x.Type())
		if signed {
			e.bind(x, Val{T: "(- (- " + v.T + ") 1)", S: "Int", GT: x.Type()})
		} else {
			e.bind(x, Val{T: fmt.Sprintf("(- %s %s)", powBig(atoiBig("2"), bits).Sub(powBig(atoiBig("2"), bits), atoiBig("1")).String(), v.T), S: "Int", GT: x.Type()})
		}
	default:
		e.errf("%s: unsupported unary op %s", e.name, x.Op)
		e.bind(x, e.freshVal("unop", x.Type()))
	}
}

// loadedFacts: values read from the heap satisfy their type invariant and were allocated earlier.
func (e *enc) loadedFacts(r Val, a *Addr) {
	if a.Root == "cell" && strings.HasPrefix(a.Var, "cell.") {
		return // local cells hold values we wrote ourselves
	}
	e.assumeHere(e.te.TypeInv(r.T, r.GT))
	switch r.GT.Underlying().(type) {
	case *types.Pointer, *types.Map:
		e.knownRef(r.T)
	case *types.Slice:
		e.knownRef("(s-ptr " + r.T + ")")
	}
}

func (e *enc) binop(x *ssa.BinOp) {
	a, b := e.val(x.X), e.val(x.Y)
	t := x.X.Type()
	res := func(term string, s Sort) { e.bind(x, Val{T: term, S: s, GT: x.Type()}) }
	switch x.Op {
	case token.EQL, token.NEQ:
		var t0 string
		switch {
		case a.S == "Slice":
			t0 = and(eq("(s-ptr "+a.T+")", "(s-ptr "+b.T+")"))
		case a.S == "Iface" && (b.T == "niliface" || a.T == "niliface"):
			o := a
			if a.T == "niliface" {
				o = b
			}
			t0 = "(= (i-tag " + o.T + ") 0)"
		case a.S == "Iface":
			// comparing two interfaces that hold the same uncomparable dynamic type panics
			e.safety("iface-compare", or("(not (= (i-tag "+a.T+") (i-tag "+b.T+")))", "(= (i-tag "+a.T+") 0)", "(comparableTag (i-tag "+a.T+"))"), x.Pos())
			t0 = eq(a.T, b.T)
		default:
			if a.S != b.S {
				e.errf("%s: comparing %s with %s", e.name, a.S, b.S)
			}
			t0 = eq(a.T, b.T)
		}
		if x.Op == token.NEQ {
			t0 = not(t0)
		}
		res(t0, "Bool")
	case token.LSS, token.LEQ, token.GTR, token.GEQ:
		op := map[token.Token]string{token.LSS: "<", token.LEQ: "<=", token.GTR: ">", token.GEQ: ">="}[x.Op]
		if a.S == "String" {
			switch x.Op {
			case token.LSS:
				res("(str.< "+a.T+" "+b.T+")", "Bool")
			case token.LEQ:
				res("(str.<= "+a.T+" "+b.T+")", "Bool")
			case token.GTR:
				res("(str.< "+b.T+" "+a.T+")", "Bool")
			default:
				res("(str.<= "+b.T+" "+a.T+")", "Bool")
			}
			return
		}
		res("("+op+" "+a.T+" "+b.T+")", "Bool")
	case token.ADD:
		if a.S == "String" {
			res("(str.++ "+a.T+" "+b.T+")", "String")
			return
		}
		if a.S == "Real" {
			e.errf("%s: unsupported/float-arithmetic", e.name)
			res("(+ "+a.T+" "+b.T+")", "Real")
			return
		}
		// the canonical `range` index increment cannot wrap: -1 <= idx < len <= 2^56
		if phi, ok := x.X.(*ssa.Phi); ok && phi.Comment == "rangeindex" {
			if c, ok := x.Y.(*ssa.Const); ok && c.Value != nil && c.Int64() == 1 {
				res("(+ "+a.T+" 1)", "Int")
				return
			}
		}
		res(wrapTo("(+ "+a.T+" "+b.T+")", t), "Int")
	case token.SUB:
		if a.S == "Real" {
			e.errf("%s: unsupported/float-arithmetic", e.name)
			res("(- "+a.T+" "+b.T+")", "Real")
			return
		}
		res(wrapTo("(- "+a.T+" "+b.T+")", t), "Int")
	case token.MUL:
		if a.S == "Real" {
			e.errf("%s: unsupported/float-arithmetic", e.name)
			res("(* "+a.T+" "+b.T+")", "Real")
			return
		}
		res(wrapTo("(* "+a.T+" "+b.T+")", t), "Int")
	case token.QUO:
		if a.S == "Real" {
			e.errf("%s: unsupported/float-arithmetic", e.name)
			res("(/ "+a.T+" "+b.T+")", "Real")
			return
		}
		e.safety("div-zero", "(not (= "+b.T+" 0))", x.Pos())
		res(wrapTo("(go_div "+a.T+" "+b.T+")", t), "Int")
	case token.REM:
		e.safety("div-zero", "(not (= "+b.T+" 0))", x.Pos())
		res("(go_rem "+a.T+" "+b.T+")", "Int")
	case token.AND:
		if a.S == "Bool" {
			res(and(a.T, b.T), "Bool")
			return
		}
		// x & 2^k  (single-bit masks) and x & (2^k - 1)
		if c, ok := x.Y.(*ssa.Const); ok && c.Value != nil {
			m := c.Int64()
			if m > 0 && m&(m-1) == 0 {
				bits, _ := intBits(t)
				u := fmt.Sprintf("(wrap_u%d %s)", bits, a.T)
				res(fmt.Sprintf("(* %d (mod (div %s %d) 2))", m, u, m), "Int")
				return
			}
			if m > 0 && (m+1)&m == 0 {
				bits, _ := intBits(t)
				u := fmt.Sprintf("(wrap_u%d %s)", bits, a.T)
				res(fmt.Sprintf("(mod %s %d)", u, m+1), "Int")
				return
			}
		}
		e.declFun("bitand", []Sort{"Int", "Int"}, "Int")
		r := e.freshVal("and", x.Type())
		e.assumeHere(eq(r.T, "(bitand "+a.T+" "+b.T+")"))
		e.bind(x, r)
	case token.OR:
		if a.S == "Bool" {
			res(or(a.T, b.T), "Bool")
			return
		}
		e.declFun("bitor", []Sort{"Int", "Int"}, "Int")
		r := e.freshVal("or", x.Type())
		e.assumeHere(eq(r.T, "(bitor "+a.T+" "+b.T+")"))
		e.bind(x, r)
	case token.SHL:
		if c, ok := x.Y.(*ssa.Const); ok && c.Value != nil {
			k := int(c.Int64())
			res(wrapTo("(* "+a.T+" "+powBig(atoiBig("2"), k).String()+")", x.Type()), "Int")
			return
		}
		e.declFun("shl", []Sort{"Int", "Int"}, "Int")
		r := e.freshVal("shl", x.Type())
		e.assumeHere(eq(r.T, "(shl "+a.T+" "+b.T+")"))
		e.bind(x, r)
	case token.SHR:
		if c, ok := x.Y.(*ssa.Const); ok && c.Value != nil {
			k := int(c.Int64())
			res("(div "+a.T+" "+powBig(atoiBig("2"), k).String()+")", "Int")
			return
		}
		e.declFun("shr", []Sort{"Int", "Int"}, "Int")
		r := e.freshVal("shr", x.Type())
		e.assumeHere(eq(r.T, "(shr "+a.T+" "+b.T+")"))
		e.bind(x, r)
	default:
		e.errf("%s: unsupported binary op %s", e.name, x.Op)
		e.bind(x, e.freshVal("binop", x.Type()))
	}
}

func (e *enc) indexAddr(x *ssa.IndexAddr) {
	base := e.val(x.X)
	idx := e.val(x.Index)
	switch t := x.X.Type().Underlying().(type) {
	case *types.Slice:
		idx.T = e.atom("ix."+x.Name(), "Int", idx.T)
		e.safety("index", and("(>= "+idx.T+" 0)", "(< "+idx.T+" (s-len "+base.T+"))"), x.Pos())
		es := e.te.SortOf(t.Elem())
		a := &Addr{Root: "elem", Mem: e.memName(es), Base: "(s-ptr " + base.T + ")", Idx: "(sidx (s-off " + base.T + ") " + idx.T + ")", RT: t.Elem()}
		e.bind(x, Val{T: "0", S: "Int", GT: x.Type(), A: a})
	case *types.Pointer:
		arr := t.Elem().Underlying().(*types.Array)
		e.safety("index", and("(>= "+idx.T+" 0)", "(< "+idx.T+" "+fmt.Sprint(arr.Len())+")"), x.Pos())
		if base.A != nil {
			a := *base.A
			a.Path = append(append([]pathStep{}, a.Path...), pathStep{field: -1, idx: idx.T, ct: t.Elem()})
			e.bind(x, Val{T: "0", S: "Int", GT: x.Type(), A: &a})
			return
		}
		e.safety("nil-deref", "(not (= "+base.T+" 0))", x.Pos())
		es := e.te.SortOf(arr.Elem())
		a := &Addr{Root: "elem", Mem: e.memName(es), Base: base.T, Idx: idx.T, RT: arr.Elem()}
		e.bind(x, Val{T: "0", S: "Int", GT: x.Type(), A: a})
	default:
		e.errf("%s: unsupported IndexAddr on %s", e.name, x.X.Type())
		e.bind(x, e.freshVal("ia", x.Type()))
	}
}

func (e *enc) sliceOp(x *ssa.Slice) {
	base := e.val(x.X)
	lo := "0"
	if x.Low != nil {
		lo = e.val(x.Low).T
	}
	switch t := x.X.Type().Underlying().(type) {
	case *types.Basic: // string
		hi := "(str.len " + base.T + ")"
		if x.High != nil {
			hi = e.val(x.High).T
		}
		e.safety("slice-bounds", and("(<= 0 "+lo+")", "(<= "+lo+" "+hi+")", "(<= "+hi+" (str.len "+base.T+"))"), x.Pos())
		e.bind(x, Val{T: "(str.substr " + base.T + " " + lo + " (- " + hi + " " + lo + "))", S: "String", GT: x.Type()})
	case *types.Slice:
		hi := "(s-len " + base.T + ")"
		if x.High != nil {
			hi = e.val(x.High).T
		}
		mx := "(s-cap " + base.T + ")"
		if x.Max != nil {
			mx = e.val(x.Max).T
		}
		e.safety("slice-bounds", and("(<= 0 "+lo+")", "(<= "+lo+" "+hi+")", "(<= "+hi+" "+mx+")", "(<= "+mx+" (s-cap "+base.T+"))"), x.Pos())
		term := "(mk-slice (s-ptr " + base.T + ") (+ (s-off " + base.T + ") " + lo + ") (- " + hi + " " + lo + ") (- " + mx + " " + lo + "))"
		e.bind(x, Val{T: e.define("sl."+x.Name(), "Slice", term), S: "Slice", GT: x.Type()})
	case *types.Pointer: // pointer to array
		arr := t.Elem().Underlying().(*types.Array)
		n := fmt.Sprint(arr.Len())
		hi := n
		if x.High != nil {
			hi = e.val(x.High).T
		}
		e.safety("slice-bounds", and("(<= 0 "+lo+")", "(<= "+lo+" "+hi+")", "(<= "+hi+" "+n+")"), x.Pos())
		if base.A != nil {
			// slice of an array embedded in a struct / cell: contents abstracted (fresh backing array)
			es := e.te.SortOf(arr.Elem())
			mem := e.memName(es)
			r := e.allocRef("arrview." + x.Name())
			cur, _ := e.loadAddr(base.A)
			e.set(mem, sto(e.get(mem), cur, r))
			e.bind(x, Val{T: "(mk-slice " + r + " " + lo + " (- " + hi + " " + lo + ") (- " + n + " " + lo + "))", S: "Slice", GT: x.Type()})
			e.aliasViews = append(e.aliasViews, x.Name())
			return
		}
		e.bind(x, Val{T: "(mk-slice " + base.T + " " + lo + " (- " + hi + " " + lo + ") (- " + n + " " + lo + "))", S: "Slice", GT: x.Type()})
	default:
		e.errf("%s: unsupported Slice on %s", e.name, x.X.Type())
		e.bind(x, e.freshVal("slice", x.Type()))
	}
}

// guardedField: is the address a guarded field of a shared object (not one allocated in this activation)?
func (e *enc) guardedField(a *Addr) (guardInfo, bool) {
	if a == nil || a.Root != "ref" || len(a.Path) == 0 || a.Path[0].field < 0 {
		return guardInfo{}, false
	}
	if e.allocd[a.Base] {
		return guardInfo{}, false // freshly allocated here: not yet shared
	}
	tn := typeName(a.RT)
	st := a.RT.Underlying().(*types.Struct)
	fname := st.Field(a.Path[0].field).Name()
	for _, g := range e.v.ct.Guards {
		if g.Type != tn {
			continue
		}
		for _, f := range g.Fields {
			if f == fname {
				mi := e.te.FieldIndex(a.RT, g.Mutex)
				e.declFun("fieldloc", []Sort{"Int", "Int"}, "Int")
				return guardInfo{mutex: fmt.Sprintf("(fieldloc %s %d)", a.Base, mi), props: g.Props, what: tn + "." + fname}, true
			}
		}
	}
	return guardInfo{}, false
}

func (e *enc) heldTerm(mutex string) string {
	g := e.v.ct.Ghosts["mu.held"]
	if g == nil {
		return "0"
	}
	e.regGhost(g)
	return sel(e.get("mu.held"), mutex)
}

func (e *enc) guardCheck(a *Addr, write bool, pos token.Pos) {
	gi, ok := e.guardedField(a)
	if !ok {
		return
	}
	e.guardOblige(gi, write, "field "+gi.what, pos)
}

func (e *enc) guardOblige(gi guardInfo, write bool, what string, pos token.Pos) {
	h := e.heldTerm(gi.mutex)
	goal := "(>= " + h + " 1)"
	mode := "read"
	if write {
		goal = "(= " + h + " 2)"
		mode = "write"
	}
	e.safeOrd["g:"+mode]++
	label := fmt.Sprintf("guarded_by %s %s#%d", mode, strings.ReplaceAll(what, " ", "_"), e.safeOrd["g:"+mode])
	e.oblige("guard", label, gi.props, "guarded_by: "+what+" needs the lock in "+mode+" mode", goal, pos)
}

func (e *enc) mapUpdate(x *ssa.MapUpdate) {
	if gi, ok := e.guardOf[x.Map]; ok {
		e.guardOblige(gi, true, "map update of "+gi.what, x.Pos())
	}
	m := e.val(x.Map)
	k := e.val(x.Key)
	v := e.val(x.Value)
	mt := x.Map.Type().Underlying().(*types.Map)
	if k.S == "Iface" {
		e.safety("map-key-hashable", or("(= (i-tag "+k.T+") 0)", "(comparableTag (i-tag "+k.T+"))"), x.Pos())
	}
	dom, val, ln, _, _ := e.mapNames(mt)
	e.safety("nil-map-write", "(not (= "+m.T+" 0))", x.Pos())
	had := sel(e.get(dom), m.T, k.T)
	e.set(ln, sto(e.get(ln), ite(had, sel(e.get(ln), m.T), "(+ "+sel(e.get(ln), m.T)+" 1)"), m.T))
	e.set(dom, sto(e.get(dom), "true", m.T, k.T))
	e.set(val, sto(e.get(val), v.T, m.T, k.T))
}

func (e *enc) lookup(x *ssa.Lookup) {
	if gi, ok := e.guardOf[x.X]; ok {
		e.guardOblige(gi, false, "map lookup of "+gi.what, x.Pos())
	}
	m := e.val(x.X)
	k := e.val(x.Index)
	if mt, ok := x.X.Type().Underlying().(*types.Map); ok {
		if k.S == "Iface" {
			e.safety("map-key-hashable", or("(= (i-tag "+k.T+") 0)", "(comparableTag (i-tag "+k.T+"))"), x.Pos())
		}
		dom, val, _, _, vs := e.mapNames(mt)
		has := and("(not (= "+m.T+" 0))", sel(e.get(dom), m.T, k.T))
		got := ite(has, sel(e.get(val), m.T, k.T), e.te.Zero(mt.Elem()))
		gv := Val{T: e.define("mv."+x.Name(), vs, got), S: vs, GT: mt.Elem()}
		e.assumeHere(e.te.TypeInv(gv.T, mt.Elem()))
		switch mt.Elem().Underlying().(type) {
		case *types.Pointer, *types.Map:
			e.knownRef(gv.T)
		}
		if x.CommaOk {
			e.tuples[x] = []Val{gv, {T: e.define("ok."+x.Name(), "Bool", has), S: "Bool", GT: types.Typ[types.Bool]}}
			e.bind(x, Val{T: "tuple", S: "Tuple", GT: x.Type()})
		} else {
			e.bind(x, gv)
		}
		return
	}
	// string index
	e.safety("index", and("(>= "+k.T+" 0)", "(< "+k.T+" (str.len "+m.T+"))"), x.Pos())
	e.bind(x, e.strByte(m.T, k.T, x.Type()))
}

// strByte: the byte s[i] as a named constant, tied both to the string theory and to the uninterpreted observer byteAt
// (contracts quantify over byteAt so that the string-free weakenings of a query keep the facts the code established).
func (e *enc) strByte(s, i string, t types.Type) Val {
	c := e.freshConst("ch", "Int")
	e.assume(eq(c, "(str.to_code (str.at "+s+" "+i+"))"))
	e.assume("(= (byteAt " + s + " " + i + ") " + c + ")")
	return Val{T: c, S: "Int", GT: t}
}

func (e *enc) convert(x *ssa.Convert) {
	v := e.val(x.X)
	from, to := x.X.Type(), x.Type()
	fs, ts := v.S, e.te.SortOf(to)
	fb, _ := from.Underlying().(*types.Basic)
	tb, _ := to.Underlying().(*types.Basic)
	switch {
	case fs == "Int" && ts == "Int":
		if tb != nil && tb.Kind() == types.UnsafePointer || fb != nil && fb.Kind() == types.UnsafePointer {
			e.bind(x, Val{T: v.T, S: "Int", GT: to, A: v.A})
			return
		}
		e.bind(x, Val{T: wrapTo(v.T, to), S: "Int", GT: to})
	case fs == "Int" && ts == "Real":
		// exact for |x| <= 2^53; beyond that the rounding is not modelled (contracts state the restriction)
		e.bind(x, Val{T: "(to_real " + v.T + ")", S: "Real", GT: to})
		e.floatConv = true
	case fs == "Real" && ts == "Int":
		// in-range truncation toward zero; out-of-range is implementation-specific in Go
		r := e.freshVal("f2i."+x.Name(), to)
		lo, hi, _ := intRange(to)
		tr := "(trunc_real " + v.T + ")"
		e.assumeHere(implies(and("(<= "+lo+" "+tr+")", "(<= "+tr+" "+hi+")"), eq(r.T, tr)))
		e.bind(x, r)
	case fs == "Real" && ts == "Real":
		// float64 -> float32 rounds: not modelled except identity for widening
		if tb != nil && tb.Kind() == types.Float32 && fb != nil && fb.Kind() == types.Float64 {
			e.declFun("round_f32", []Sort{"Real"}, "Real")
			e.bind(x, Val{T: "(round_f32 " + v.T + ")", S: "Real", GT: to})
		} else {
			e.bind(x, Val{T: v.T, S: "Real", GT: to})
		}
	case fs == "String" && ts == "Slice":
		// []byte(s) or []rune(s)
		sl := to.Underlying().(*types.Slice)
		es := e.te.SortOf(sl.Elem())
		mem := e.memName(es)
		r := e.allocRef("conv." + x.Name())
		eb, _ := sl.Elem().Underlying().(*types.Basic)
		var ln string
		if eb != nil && (eb.Kind() == types.Int32) { // []rune
			ln = e.specCall("runeCount", "Int", v).T
			e.havocAt(mem, r)
		} else {
			ln = "(str.len " + v.T + ")"
			arr := e.freshConst("bytes."+x.Name(), "(Array Int Int)")
			e.assumeHere("(forall ((i Int)) (! (=> (and (<= 0 i) (< i (str.len " + v.T + "))) (= (select " + arr + " i) (str.to_code (str.at " + v.T + " i)))) :pattern ((select " + arr + " i))))")
			e.set(mem, sto(e.get(mem), arr, r))
		}
		e.bind(x, Val{T: "(mk-slice " + r + " 0 " + ln + " " + ln + ")", S: "Slice", GT: to})
	case fs == "Slice" && ts == "String":
		// string(bytes): content tied to the backing array through an uninterpreted function of (array, off, len)
		sl := from.Underlying().(*types.Slice)
		es := e.te.SortOf(sl.Elem())
		mem := e.memName(es)
		e.declFun("bytes2str", []Sort{"(Array Int Int)", "Int", "Int"}, "String")
		t := "(bytes2str " + sel(e.get(mem), "(s-ptr "+v.T+")") + " (s-off " + v.T + ") (s-len " + v.T + "))"
		r := e.define("str."+x.Name(), "String", t)
		e.bytes2strAxioms()
		e.bind(x, Val{T: r, S: "String", GT: to})
	case fs == "Int" && ts == "String":
		// string(rune)
		e.declFun("rune2str", []Sort{"Int"}, "String")
		e.bind(x, Val{T: "(ite (and (<= 0 " + v.T + ") (< " + v.T + " 128)) (str.from_code " + v.T + ") (rune2str " + v.T + "))", S: "String", GT: to})
	default:
		if fs == ts {
			e.bind(x, Val{T: v.T, S: ts, GT: to, A: v.A})
			return
		}
		e.errf("%s: unsupported conversion %s -> %s", e.name, from, to)
		e.bind(x, e.freshVal("conv", to))
	}
}

func (e *enc) bytes2strAxioms() {
	if e.declared["ax:bytes2str"] {
		return
	}
	e.declared["ax:bytes2str"] = true
	e.decls = append(e.decls,
		"(assert (forall ((a (Array Int Int)) (o Int) (n Int)) (! (=> (>= n 0) (= (str.len (bytes2str a o n)) n)) :pattern ((bytes2str a o n)))))",
		"(assert (forall ((a (Array Int Int)) (o Int) (n Int) (i Int)) (! (=> (and (<= 0 i) (< i n)) (= (str.to_code (str.at (bytes2str a o n) i)) (select a (+ o i)))) :pattern ((str.at (bytes2str a o n) i)))))")
}

func (e *enc) havocAt(state string, idx ...string) {
	s := e.stateSort(state)
	// value sort after len(idx) selects
	vs := s
	for range idx {
		vs = arrayValSort(vs)
	}
	f := e.freshConst("hv", vs)
	e.set(state, sto(e.get(state), f, idx...))
}

func (e *enc) typeAssert(x *ssa.TypeAssert) {
	v := e.val(x.X)
	tag := "(i-tag " + v.T + ")"
	var ok string
	var res Val
	if _, isIface := x.AssertedType.Underlying().(*types.Interface); isIface {
		fn := "impl." + symSafe(typeName(x.AssertedType))
		e.declFun(fn, []Sort{"Int"}, "Bool")
		if types.NewMethodSet(x.AssertedType).Len() == 0 {
			ok = "(not (= " + tag + " 0))"
		} else {
			ok = and("(not (= "+tag+" 0))", "("+fn+" "+tag+")")
		}
		res = Val{T: v.T, S: "Iface", GT: x.AssertedType}
		if isReflectType(x.AssertedType) {
			e.errf("%s: type assertion to reflect.Type unsupported", e.name)
		}
	} else {
		t := e.te.TagOf(x.AssertedType)
		ok = fmt.Sprintf("(= %s %d)", tag, t)
		s := e.te.SortOf(x.AssertedType)
		e.useBox(s)
		r := e.freshVal("ta."+x.Name(), x.AssertedType)
		e.assumeHere(implies(ok, eq(r.T, "("+unboxFn(s)+" (i-val "+v.T+"))")))
		if !x.CommaOk {
			// value is meaningful only when ok
		} else {
			e.assumeHere(implies(not(ok), eq(r.T, e.te.Zero(x.AssertedType))))
		}
		res = r
		switch x.AssertedType.Underlying().(type) {
		case *types.Pointer, *types.Map:
			e.knownRef(r.T)
		}
	}
	if x.CommaOk {
		okv := Val{T: e.define("ok."+x.Name(), "Bool", ok), S: "Bool", GT: types.Typ[types.Bool]}
		e.tuples[x] = []Val{res, okv}
		e.bind(x, Val{T: "tuple", S: "Tuple", GT: x.Type()})
		return
	}
	e.safety("type-assert", ok, x.Pos())
	e.bind(x, res)
}

// ---------------------------------------------------------------------------
// range / next over maps and strings (ghost iteration sequence)

func (e *enc) rangeInit(x *ssa.Range) {
	name := "iter." + symSafe(e.name) + "." + x.Name()
	e.regState(name, "Int")
	e.set(name, "0")
	e.bind(x, Val{T: name, S: "Int", GT: x.Type()})
	e.iters[x] = name
	mt, isMap := x.X.Type().Underlying().(*types.Map)
	if !isMap {
		return
	}
	if gi, ok := e.guardOf[x.X]; ok {
		e.guardOblige(gi, false, "range over "+gi.what, x.Pos())
	}
	// ghost key sequence of this iteration: a bijection between [0, n) and the domain at range start
	src := e.val(x.X)
	dom, _, ln, ks, _ := e.mapNames(mt)
	seq := "keyseq." + symSafe(e.name) + "." + x.Name()
	idx := "keyidx." + symSafe(e.name) + "." + x.Name()
	e.declFun(seq, []Sort{"Int"}, ks)
	e.declFun(idx, []Sort{ks}, "Int")
	n := e.define("rng.n."+x.Name(), "Int", ite("(= "+src.T+" 0)", "0", sel(e.get(ln), src.T)))
	d0 := e.define("rng.dom."+x.Name(), "(Array "+ks+" Bool)", sel(e.get(dom), src.T))
	e.rangeInfo[x] = &rangeRec{seq: seq, idx: idx, n: n, dom: d0, src: src.T}
	e.assumeHere("(>= " + n + " 0)")
	e.assumeHere("(forall ((i Int)) (! (=> (and (<= 0 i) (< i " + n + ")) (and (select " + d0 + " (" + seq + " i)) (= (" + idx + " (" + seq + " i)) i))) :pattern ((" + seq + " i))))")
	e.assumeHere("(forall ((k " + ks + ")) (! (=> (select " + d0 + " k) (and (<= 0 (" + idx + " k)) (< (" + idx + " k) " + n + ") (= (" + seq + " (" + idx + " k)) k))) :pattern ((select " + d0 + " k)) :pattern ((" + idx + " k))))")
}

type rangeRec struct {
	seq, idx, n, dom, src string
}

func (e *enc) next(x *ssa.Next) {
	rg, _ := x.Iter.(*ssa.Range)
	if rg == nil {
		e.errf("%s: next on unknown iterator", e.name)
		return
	}
	pos := e.iters[rg]
	src := e.val(rg.X)
	p := e.get(pos)
	if x.IsString {
		ok := "(< " + p + " (str.len " + src.T + "))"
		e.declFun("runeAt", []Sort{"String", "Int"}, "Int")
		e.declFun("runeWidth", []Sort{"String", "Int"}, "Int")
		w := "(runeWidth " + src.T + " " + p + ")"
		e.assumeHere(and("(>= "+w+" 1)", "(<= "+w+" 4)"))
		e.tuples[x] = []Val{{T: e.define("ok."+x.Name(), "Bool", ok), S: "Bool"}, {T: p, S: "Int"}, {T: "(runeAt " + src.T + " " + p + ")", S: "Int"}}
		e.set(pos, ite(ok, "(+ "+p+" "+w+")", p))
		e.bind(x, Val{T: "tuple", S: "Tuple", GT: x.Type()})
		return
	}
	mt := rg.X.Type().Underlying().(*types.Map)
	_, val, _, ks, vs := e.mapNames(mt)
	ri := e.rangeInfo[rg]
	if ri == nil {
		e.errf("%s: next without range info", e.name)
		return
	}
	e.assumeHere(and("(>= "+p+" 0)", "(<= "+p+" "+ri.n+")"))
	ok := "(< " + p + " " + ri.n + ")"
	k := "(" + ri.seq + " " + p + ")"
	okc := e.define("ok."+x.Name(), "Bool", ok)
	kv := Val{T: e.define("key."+x.Name(), ks, k), S: ks, GT: mt.Key()}
	vv := Val{T: e.define("val."+x.Name(), vs, sel(e.get(val), src.T, kv.T)), S: vs, GT: mt.Elem()}
	e.assumeHere(implies(okc, e.te.TypeInv(vv.T, mt.Elem())))
	switch mt.Elem().Underlying().(type) {
	case *types.Pointer, *types.Map:
		e.knownRef(vv.T)
	}
	e.tuples[x] = []Val{{T: okc, S: "Bool"}, kv, vv}
	e.set(pos, ite(okc, "(+ "+p+" 1)", p))
	e.bind(x, Val{T: "tuple", S: "Tuple", GT: x.Type()})
}

// rangeByOrdinal: the k-th `range` over a map/string of the function, in source order.
func (e *enc) rangeByOrdinal(k int) *ssa.Range {
	var rs []*ssa.Range
	for _, b := range e.fn.Blocks {
		for _, in := range b.Instrs {
			if r, ok := in.(*ssa.Range); ok {
				rs = append(rs, r)
			}
		}
	}
	sort.Slice(rs, func(i, j int) bool { return rs[i].Pos() < rs[j].Pos() })
	if k < 0 || k >= len(rs) {
		return nil
	}
	return rs[k]
}

// inScope: is the source variable `name` that value v was recorded for visible at position pos?
func (e *enc) inScope(v ssa.Value, name string, pos token.Pos) bool {
	obj := e.dbgObj[v][name]
	if obj == nil || obj.Parent() == nil || !pos.IsValid() {
		return true
	}
	return obj.Parent().Contains(pos)
}

// framedVars: the state variables among names that the function's modifies clause does not release entirely.
func (e *enc) framedVars(names []string) []string {
	if e.discover || e.fc == nil || !e.fc.HasMod || e.fc.ModAll {
		return nil
	}
	allowed, _ := e.frameSpec()
	if allowed["*"] {
		return nil
	}
	var out []string
	for _, n := range names {
		if allowed[n] || frameExempt(n) {
			continue
		}
		out = append(out, n)
	}
	return out
}

// pickNamed chooses, among the SSA values recorded for a source variable, the one that is in force at block `at`:
// already encoded, in scope at pos, defined in a block that dominates `at` (strictly, for loop heads), and
// defined latest (deepest in the dominator tree; later in the same block).
func (e *enc) pickNamed(name string, vs []ssa.Value, at *ssa.BasicBlock, strict bool, pos token.Pos) (Val, bool) {
	var best ssa.Value
	var bestBlock *ssa.BasicBlock
	bestIdx := -1
	for _, v := range vs {
		val, ok := e.vals[v]
		_ = val
		if !ok || !e.inScope(v, name, pos) {
			continue
		}
		in, isInstr := v.(ssa.Instruction)
		if pm, isParam := v.(*ssa.Parameter); isParam && at != nil && pm.Parent() != at.Parent() {
			continue // parameter of another function (caller / inlined helper)
		}
		if !isInstr || in.Block() == nil {
			if best == nil {
				best = v
			}
			continue
		}
		b := in.Block()
		if at != nil && b.Parent() != at.Parent() {
			continue // a value of another function (caller of / helper inlined into this one): not comparable by dominance
		}
		if at != nil && (!b.Dominates(at) || (strict && b == at)) {
			continue
		}
		idx := 0
		for i, x := range b.Instrs {
			if x == in {
				idx = i
			}
		}
		if bestBlock == nil || (bestBlock != b && bestBlock.Dominates(b)) || (bestBlock == b && idx > bestIdx) {
			best, bestBlock, bestIdx = v, b, idx
		}
	}
	if best == nil {
		return Val{}, false
	}
	return e.vals[best], true
}

// constArr: the array that holds `zero` everywhere. cvc5 accepts (as const ..) only for value arguments; zeros that are
// built from declared constants (niliface, rv.zeroValue, rt.nil) get a declared array with a defining axiom instead,
// so that both solvers can read the query.
func (e *enc) constArr(es Sort, zero string) string {
	switch zero {
	case "niliface", "rv.zeroValue", "rt.nil", "any.nil":
		name := "czero." + symSafe(string(es))
		if !e.declared["czero:"+name] {
			e.declared["czero:"+name] = true
			e.decls = append(e.decls,
				fmt.Sprintf("(declare-const %s (Array Int %s))", name, es),
				fmt.Sprintf("(assert (forall ((i Int)) (! (= (select %s i) %s) :pattern ((select %s i)))))", name, zero, name))
		}
		return name
	}
	return "((as const (Array Int " + string(es) + ")) " + zero + ")"
}
