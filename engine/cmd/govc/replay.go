package main

import (
	"fmt"
	"os"
	"path/filepath"
	"sort"
	"strings"
)

// cexModel tries to obtain a candidate counter-model for a failed obligation:
// the solver's own model when it answered sat; otherwise the query with its
// quantified assertions dropped (candidate only: it is believed only if it
// replays on the real code).
func cexModel(o *Obligation, work string, seed int) (map[string]string, string) {
	if o.Result != nil && o.Result.Status == "sat" {
		return parseModel(o.Result.Output), "solver model (" + o.Result.Solver + ")"
	}
	if o.Query == "" {
		return nil, ""
	}
	var kept []string
	for _, l := range strings.Split(o.Query, "\n") {
		if strings.Contains(l, "(forall ") || strings.Contains(l, "(exists ") {
			continue
		}
		kept = append(kept, l)
	}
	r := runSMT(work, o.Name+".cex", strings.Join(kept, "\n"), 10, seed, []string{"z3-new"})
	if r.Status == "sat" {
		return parseModel(r.Output), "candidate model of the quantifier-free relaxation (" + r.Solver + ")"
	}
	return nil, ""
}

// evalTerms asks a solver for the values of the given terms in a counter-model of the obligation
// (first with the full query, then with quantified assertions dropped).
func evalTerms(o *Obligation, work string, seed int, terms []string) map[string]string {
	if o.Query == "" || len(terms) == 0 {
		return nil
	}
	post := "(get-value (" + strings.Join(terms, " ") + "))"
	try := func(q string) map[string]string {
		r := runSMTPost(work, o.Name+".val", q, post, 10, seed, []string{"z3-new"})
		if r.Status != "sat" {
			return nil
		}
		return parseGetValue(r.Output, terms)
	}
	if o.Result != nil && o.Result.Status == "sat" {
		if m := try(o.Query); m != nil {
			return m
		}
	}
	var kept []string
	for _, l := range strings.Split(o.Query, "\n") {
		if strings.Contains(l, "(forall ") || strings.Contains(l, "(exists ") {
			continue
		}
		kept = append(kept, l)
	}
	return try(strings.Join(kept, "\n"))
}

// parseGetValue parses "((t1 v1) (t2 v2) ...)" following the sat line.
func parseGetValue(out string, terms []string) map[string]string {
	i := strings.Index(out, "((")
	if i < 0 {
		return nil
	}
	s := out[i+1:]
	res := map[string]string{}
	for _, t := range terms {
		s = strings.TrimLeft(s, " \n\t")
		if !strings.HasPrefix(s, "(") {
			break
		}
		inner := s[1:]
		k := skipSexp(inner)
		rest := strings.TrimLeft(inner[k:], " \n\t")
		k2 := skipSexp(rest)
		res[t] = strings.TrimSpace(rest[:k2])
		// advance past the closing paren of this pair
		n := skipSexp(s)
		s = s[n:]
	}
	return res
}

// writeReplay writes the replay file of a failed obligation and tries to confirm the
// counter-example on the real code. Returns the file path and whether a failing input was confirmed.
// replayBudget: for how many failed obligations of one check a counter-model is searched and replayed on the real code;
// further failed obligations get the obligation record only (the first replays say what fails, the rest would only
// multiply the time to the verdict)
const replayBudget = 3

var replaysDone int
var searchMemo = map[string]*ReplayResult{}

func writeReplay(v *Verifier, o *Obligation, dir, work, repo, root, prop string, seed int) (string, bool) {
	os.MkdirAll(dir, 0755)
	replaysDone++
	light := replaysDone > replayBudget
	path := filepath.Join(dir, sanitize(o.Name)+".replay.txt")
	var b strings.Builder
	fmt.Fprintf(&b, "property: %s\nobligation: %s\nkind: %s\nfunction: %s\nposition: %s\nclause: %s\n", prop, o.Name, o.Kind, o.Func, o.Pos, o.Src)
	if o.Result != nil {
		fmt.Fprintf(&b, "verdict: %s\nsolvers: %v\n", o.Result.Status, o.Result.All)
		if o.Result.Status != "sat" && o.Result.Output != "" {
			fmt.Fprintf(&b, "solver output: %s\n", firstLines(o.Result.Output, 5))
		}
	}
	confirmed := false
	var model map[string]string
	how := ""
	if !light {
		model, how = cexModel(o, work, seed)
	}
	var inputs map[string]string
	if model != nil {
		inputs = projectInputs(o, model)
		fmt.Fprintf(&b, "model source: %s\ninputs:\n", how)
		var ks []string
		for k := range inputs {
			ks = append(ks, k)
		}
		sort.Strings(ks)
		for _, k := range ks {
			fmt.Fprintf(&b, "  %s = %s\n", k, inputs[k])
		}
	}
	// property-specific replay on the real code
	var rr *ReplayResult
	if !light {
		rr = replayOnRealCode(v, o, prop, inputs, model, repo, root, work, seed)
	} else if m, ok := searchMemo[prop]; ok {
		rr = m // the property-level witness search does not depend on the obligation: reuse its outcome
	}
	if rr != nil && !light && o.Kind != "language" && (prop == "C09" || prop == "C10") {
		searchMemo[prop] = rr
	}
	if light && rr == nil {
		fmt.Fprintf(&b, "\n(more than %d obligations failed in this check: counter-model search and replay were run for the first %d only)\n", replayBudget, replayBudget)
	}
	if rr != nil {
		fmt.Fprintf(&b, "\nreplay on real code: %s\n%s\n", rr.Summary, rr.Detail)
		confirmed = rr.Confirmed
	} else {
		fmt.Fprintf(&b, "\nreplay on real code: no replay builder for this obligation; no-failing-input-found\n")
	}
	if o.Query != "" {
		q := filepath.Join(dir, sanitize(o.Name)+".smt2")
		os.WriteFile(q, []byte("(set-logic ALL)\n"+o.Query+"\n(check-sat)\n(get-model)\n"), 0644)
		fmt.Fprintf(&b, "\nsmt query: %s\n", q)
	}
	os.WriteFile(path, []byte(b.String()), 0644)
	return path, confirmed
}

// projectInputs keeps the model entries that describe the function's inputs:
// parameters, initial state, and the abstract observers.
func projectInputs(o *Obligation, model map[string]string) map[string]string {
	out := map[string]string{}
	for k, v := range model {
		if strings.HasPrefix(k, "p.") || strings.HasSuffix(k, "!0") || strings.HasPrefix(k, "rv.") || strings.HasPrefix(k, "rt.") ||
			strings.HasPrefix(k, "pure.") || k == "runeCount" || k == "atoi" || k == "atoiOk" {
			if len(v) > 600 {
				v = v[:600] + "..."
			}
			out[k] = v
		}
	}
	return out
}

type ReplayResult struct {
	Confirmed bool
	Summary   string
	Detail    string
}
