package main

import (
	"encoding/json"
	"os/exec"
	"flag"
	"fmt"
	"os"
	"path/filepath"
	"regexp"
	"sort"
	"strconv"
	"strings"
	"sync"
	"time"
)

type KnownFinding struct {
	Property   string `json:"property"`
	Obligation string `json:"obligation"` // regexp on obligation names
	Status     string `json:"status"`     // known | fixed
	What       string `json:"what"`
	Commit     string `json:"commit,omitempty"`
	Input      string `json:"input,omitempty"`
	Bounded    string `json:"bounded,omitempty"` // tag printed by a bounded stand-in when this finding reproduces
}

type PropertyMeta struct {
	ID          string   `json:"id"`
	Assumptions []string `json:"assumptions"`
	Bounded     []BoundedSpec `json:"bounded"` // bounded stand-ins to run
	Required    []string `json:"required_labels"`
	Level       string   `json:"level"` // evidence level when not "proof" (e.g. "other": decisive clause only bounded)
	DeadReturns []string `json:"dead_returns"` // cover queries expected to be unsat (dead code by contract)
	ExtraFuncs  []string `json:"extra_functions"`
	ExtraSafety bool     `json:"extra_with_safety"` // the safety obligations of the extra functions are this property's too
}

type oblReport struct {
	Name    string            `json:"name"`
	Kind    string            `json:"kind"`
	Status  string            `json:"status"`
	Solver  string            `json:"solver,omitempty"`
	Ms      int64             `json:"ms"`
	Clause  string            `json:"clause,omitempty"`
	Pos     string            `json:"pos,omitempty"`
	Solvers map[string]string `json:"solvers,omitempty"`
}

func hasProp(ps []string, p string) bool {
	for _, x := range ps {
		if x == p {
			return true
		}
	}
	return false
}

func funcHasProp(fc *FuncContract, p string) bool {
	if fc == nil {
		return false
	}
	for _, l := range [][]*Clause{fc.Requires, fc.Ensures, fc.Proves, fc.CallAsrt, fc.NeverCalls} {
		for _, c := range l {
			if hasProp(c.Props, p) {
				return true
			}
		}
	}
	for _, cs := range fc.Loops {
		for _, c := range cs {
			if hasProp(c.Props, p) {
				return true
			}
		}
	}
	return false
}

func checkMain(args []string) {
	fs := flag.NewFlagSet("check", flag.ExitOnError)
	repo := fs.String("repo", envOr("VERIF_REPO", "/repo"), "repository")
	root := fs.String("root", envOr("VERIF_ROOT", "/verif"), "verif root")
	prop := fs.String("property", "", "property id")
	tier := fs.String("tier", "quick", "quick|thorough")
	noEvidence := fs.Bool("no-evidence", false, "do not write evidence (selftest)")
	fs.Parse(args)
	if t := os.Getenv("VERIF_TIER"); t == "quick" || t == "thorough" {
		*tier = t
	}
	seed, _ := strconv.Atoi(os.Getenv("VERIF_SEED"))
	t0 := time.Now()
	res := runCheck(*repo, *root, *prop, *tier, seed)
	if *tier == "thorough" && os.Getenv("VERIF_REPO") == "" && res.ToolError == "" {
		res.Selftest = runSeededSelftest(*repo, *root, *prop, seed)
	}
	res.WallS = time.Since(t0).Seconds()
	if !*noEvidence {
		writeEvidence(*root, res)
	}
	for _, l := range res.Lines {
		fmt.Println(l)
	}
	fmt.Printf("property=%s tier=%s obligations=%d discharged=%d violations=%d known=%d wall=%.1fs\n",
		res.Property, res.Tier, res.Obligations, res.Discharged, res.Violations, res.Known, res.WallS)
	if res.ToolError != "" {
		fmt.Println("TOOL-ERROR:", res.ToolError)
		os.Exit(2)
	}
	if res.Violations > 0 {
		os.Exit(1)
	}
}

type CheckResult struct {
	Property    string
	Tier        string
	Seed        int
	Obligations int
	Discharged  int
	Violations  int
	Known       int
	Lines       []string
	Reports     []oblReport
	Funcs       []string
	Trusted     []string
	Assumptions []string
	Bounded     []map[string]interface{}
	SolverMs    int64
	WallS       float64
	ToolError   string
	Uncontracted []string
	Inlined      []string
	Undecided    []map[string]interface{}
	CoverSat    int
	Selftest    map[string]interface{}
	Level       string
	CoverRelaxed int
	CoverUnknown int
	CoverUnsat  []string
}

// staleReasons: the ways a contract can fail to apply to the function as it now is (as opposed to an obligation the
// solver cannot discharge).
func staleReasons(e *enc) []string {
	var out []string
	for _, m := range e.errs {
		if strings.Contains(m, "unknown identifier") || strings.Contains(m, "matches no call site") || strings.Contains(m, "clause but the function has") {
			out = append(out, m)
		}
	}
	for _, h := range e.needContract {
		out = append(out, "calls "+h+", which has no contract and cannot be verified in place (it has a loop, a defer or is recursive: it needs a contract of its own)")
	}
	sort.Strings(out)
	return out
}

// retryBudget: how many undecided obligations are retried with other seeds / more time (see runCheck)
const retryBudget = 12

// perFuncFailCap: after this many undecided obligations of one function the remaining ones are reported without being attempted
const perFuncFailCap = 8

func loadKnown(root string) []KnownFinding {
	var k []KnownFinding
	data, err := os.ReadFile(filepath.Join(root, "known_findings.json"))
	if err == nil {
		json.Unmarshal(data, &k)
	}
	return k
}

func loadMeta(root, prop string) PropertyMeta {
	var m PropertyMeta
	data, err := os.ReadFile(filepath.Join(root, "specs", "scope", prop+".json"))
	if err == nil {
		json.Unmarshal(data, &m)
	}
	m.ID = prop
	// returns that are dead by contract in every property's view (shared list)
	var common PropertyMeta
	if data, err := os.ReadFile(filepath.Join(root, "specs", "scope", "common.json")); err == nil {
		json.Unmarshal(data, &common)
		m.DeadReturns = append(m.DeadReturns, common.DeadReturns...)
	}
	return m
}

var phaseT0 = time.Now()

func runCheck(repo, root, prop, tier string, seed int) *CheckResult {
	res := &CheckResult{Property: prop, Tier: tier, Seed: seed}
	v, err := loadVerifier(repo, filepath.Join(root, "specs"))
	if err != nil {
		// a tree that no longer loads cannot be verified: report as violation of nothing, tool error
		res.ToolError = "load: " + err.Error()
		return res
	}
	meta := loadMeta(root, prop)
	known := loadKnown(root)
	timeout := 10
	coverTimeout := 1
	if tier == "thorough" {
		timeout = 60
		coverTimeout = 10
	}
	work := tmpWorkdir()
	defer os.RemoveAll(work)

	// 1. encode every function under contract; collect obligations of this property
	var obls []*Obligation
	var covers []*Obligation
	funcSet := map[string]bool{}
	trusted := map[string]bool{}
	uncon := map[string]bool{}
	inlinedSet := map[string]bool{}
	staleFuncs := map[string][]string{}
	staleLabels := map[string]bool{}
	var encErrs []string
	names := v.contractedFuncs()
	isSafetyProp := prop == "C13" || prop == "C19"
	if isSafetyProp {
		// zero-annotation sweep: every function of the packages in scope
		for n, fn := range v.funcs {
			if _, ok := v.ct.Funcs[n]; ok {
				continue
			}
			if hasProp(v.safetyPropsFor(fn), prop) && fn.Blocks != nil && !strings.HasSuffix(n, ".init") && !strings.Contains(n, "init#") {
				if v.inlinedOnly()[fn] {
					continue // verified in place, in the context of each caller (inline.go)
				}
				names = append(names, n)
			}
		}
		sort.Strings(names)
	}
	for _, name := range names {
		fc := v.ct.Funcs[name]
		fn := v.funcs[name]
		if fn == nil {
			if funcHasProp(fc, prop) {
				o := &Obligation{Name: "contract-target-missing/" + name, Func: name, Kind: "target", Props: []string{prop},
					Src: "function under contract no longer exists", Result: &SolverResult{Status: "missing"}}
				obls = append(obls, o)
			}
			continue
		}
		if fn.Blocks == nil {
			continue
		}
		relevant := funcHasProp(fc, prop) || (isSafetyProp && hasProp(v.safetyPropsFor(fn), prop))
		// extra_functions (scope file): functions the property rests on as a whole — all their obligations (frames,
		// invariants, supporting postconditions) are decided by this property's check too. Entries are names or regexps.
		isExtra := false
		for _, x := range meta.ExtraFuncs {
			if x == name {
				isExtra = true
			} else if re, err := regexp.Compile("^(?:" + x + ")$"); err == nil && re.MatchString(name) {
				isExtra = true
			}
		}
		if isExtra && fc != nil {
			relevant = true
		}
		if !relevant {
			continue
		}
		if fc != nil && fc.NoSafety && isSafetyProp && !funcHasProp(fc, prop) {
			continue
		}
		e := v.encodeFunction(fn, fc)
		// a contract that can no longer be applied as written (it names a local, a loop or a call site the function no
		// longer has, or the function now calls a helper that needs its own loop invariant) proves nothing either way:
		// the function's obligations are UNDECIDED, reported as such, and the property's bounded stand-ins decide.
		// Without a bounded stand-in to fall back on, the mismatch is reported like any other undischarged obligation.
		if why := staleReasons(e); len(why) > 0 && fc != nil && len(meta.Bounded) > 0 {
			staleFuncs[name] = why
			for _, l := range [][]*Clause{fc.Requires, fc.Ensures, fc.Proves, fc.CallAsrt} {
				for _, c := range l {
					staleLabels[c.Name] = true
				}
			}
			for _, cs := range fc.Loops {
				for _, c := range cs {
					staleLabels[c.Name] = true
				}
			}
			continue
		}
		for _, m := range e.errs {
			encErrs = append(encErrs, m)
		}
		for u := range e.inlined {
			inlinedSet[u] = true
		}
		for u := range e.uncontracted {
			uncon[u] = true
		}
		hasP := funcHasProp(fc, prop) || (isExtra && fc != nil)
		if hasP || isSafetyProp {
			covers = append(covers, e.covers...)
		}
		cnt := 0
		for _, o := range e.obls {
			// an obligation is decided by the check of every property in its label; unlabelled ones (supporting
			// postconditions, invariants, frames, call-site preconditions) by the check of every property the function
			// carries a clause for; the safety sweeps (C13, C19) take every obligation of every function in their
			// packages, because absence of panics rests on all of them (callers assume callees' postconditions)
			take := hasProp(o.Props, prop)
			if !take && hasP {
				switch o.Kind {
				case "invariant-init", "invariant-preserve", "decreases", "frame", "assert", "guard":
					take = true
				case "requires":
					take = !hasProp(o.Props, "C13") && !hasProp(o.Props, "C19")
				case "ensures", "proves":
					take = len(o.Props) == 0
				}
			}
			if !take && isExtra && fc != nil {
				// a function the property rests on as a whole: everything but the pure safety obligations of the sweeps
				onlySafety := len(o.Props) > 0
				for _, pp := range o.Props {
					if pp != "C13" && pp != "C19" {
						onlySafety = false
					}
				}
				take = !onlySafety || meta.ExtraSafety
			}
			if !take && isSafetyProp && hasProp(e.safetyProps, prop) {
				take = true
			}
			if take && strings.Contains(o.Label, ".thorough") && tier != "thorough" {
				take = false // a proof that needs tens of seconds: thorough tier only (the quick tier leaves it to the bounded stand-in)
			}
			if take {
				obls = append(obls, o)
				cnt++
			}
		}
		if cnt > 0 {
			funcSet[name] = true
		}
		for n := range e.declared {
			_ = n
		}
		for _, t := range e.trustedUsed() {
			trusted[t] = true
		}
	}
	// language obligations (regex constants) and lemmas
	obls = append(obls, v.regexObligations(prop)...)
	for _, o := range v.lemmaObligations(prop) {
		if strings.Contains(o.Label, "thorough") && tier != "thorough" {
			continue // expensive lemma: thorough tier only (recorded in the scope file's assumptions)
		}
		obls = append(obls, o)
	}

	if len(encErrs) > 0 {
		sort.Strings(encErrs)
		// unsupported constructs are undischarged obligations
		seen := map[string]bool{}
		for _, m := range encErrs {
			if seen[m] {
				continue
			}
			seen[m] = true
			obls = append(obls, &Obligation{Name: "unsupported/" + sanitize(m), Kind: "unsupported", Props: []string{prop}, Src: m,
				Result: &SolverResult{Status: "unsupported", Output: m}})
		}
	}
	// required labels (vacuity guard)
	have := map[string]bool{}
	for _, o := range obls {
		have[o.Label] = true
		if i := strings.Index(o.Label, " @ret"); i >= 0 {
			have[o.Label[:i]] = true
		}
		have[o.Func+"/"+o.Label] = true
		if i := strings.Index(o.Label, " @ret"); i >= 0 {
			have[o.Func+"/"+o.Label[:i]] = true
		}
	}
	hasLabel := func(r string) bool {
		if have[r] {
			return true
		}
		for l := range have {
			if strings.HasSuffix(l, " "+r) || strings.Contains(l, " "+r+" ") || strings.HasPrefix(l, r+" ") {
				return true
			}
		}
		return false
	}
	for _, r := range meta.Required {
		if !hasLabel(r) && !staleLabels[r] {
			obls = append(obls, &Obligation{Name: "contract-target-missing/" + r, Kind: "target", Props: []string{prop},
				Src: "required obligation label yields no obligation", Result: &SolverResult{Status: "missing"}})
		}
	}

	phase := func(what string) {
		if os.Getenv("GOVC_PHASES") != "" {
			fmt.Fprintf(os.Stderr, "PHASE %s at %.1fs\n", what, time.Since(phaseT0).Seconds())
		}
	}
	phase("encoded")
	// 2. discharge
	var wg sync.WaitGroup
	var failMu sync.Mutex
	failCount := map[string]int{}
	queue := make(chan *Obligation, len(obls))
	for _, o := range obls {
		if o.Result == nil {
			queue <- o
		}
	}
	close(queue)
	for w := 0; w < 24; w++ {
		wg.Add(1)
		go func() {
			defer wg.Done()
			for o := range queue {
				if o.Query == "" {
					o.Query = o.BuildQuery()
				}
				// once several obligations of one function are undecided, the rest of that function's obligations are
				// not worth minutes of solver time: the function no longer verifies, which is what gets reported
				failMu.Lock()
				giveUp := failCount[o.Func] >= perFuncFailCap
				failMu.Unlock()
				if giveUp && o.Func != "" {
					o.Result = &SolverResult{Status: "not-attempted", Output: fmt.Sprintf("%d obligations of %s were already undecided", perFuncFailCap, o.Func)}
					continue
				}
				// first attempt: the solvers' default configuration (deterministic)
				t1 := timeout
				if strings.Contains(o.Label, ".slow") {
					t1 = timeout * 3 // a clause known to need several seconds of solver time (prefix reasoning across many appends)
				}
				r := discharge(work, o.Name, o.Query, t1, 0)
				o.Result = &r
				if r.Status != "unsat" {
					failMu.Lock()
					failCount[o.Func]++
					failMu.Unlock()
				}
			}
		}()
	}
	var cwg sync.WaitGroup
	coverRes := make([]string, len(covers))
	for i, o := range covers {
		cwg.Add(1)
		go func(i int, o *Obligation) {
			defer cwg.Done()
			coverRes[i] = runCover(o, work, seed, coverTimeout)
		}(i, o)
	}
	wg.Wait()
	// retries: an obligation left undecided gets another random seed (VERIF_SEED-derived) and then the default configuration
	// again with four times the CPU time, so that a slow proof is not an alarm. When many obligations are undecided at once
	// the cause is a change in the code, not a slow solver: retrying them all would only multiply the time to the verdict.
	var undecided []*Obligation
	for _, o := range obls {
		if o.Result != nil && o.Query != "" && o.Result.Status != "unsat" && o.Result.Status != "sat" && o.Result.Status != "error" && o.Result.Status != "unsupported" && o.Result.Status != "missing" && o.Result.Status != "not-attempted" {
			undecided = append(undecided, o)
		}
	}
	if len(undecided) <= retryBudget {
		s2 := seed
		if s2 == 0 {
			s2 = 7
		}
		for _, o := range undecided {
			wg.Add(1)
			go func(o *Obligation) {
				defer wg.Done()
				r := *o.Result
				for _, at := range []struct{ seed, t int }{{s2, timeout}, {0, timeout * 4}} {
					if r.Status == "unsat" || r.Status == "sat" || r.Status == "error" {
						break
					}
					r2 := discharge(work, fmt.Sprintf("%s.retry%d", o.Name, at.seed), o.Query, at.t, at.seed)
					if r2.Status == "unsat" || r2.Status == "sat" {
						r2.Solver += fmt.Sprintf(" (retry, seed %d, %ds)", at.seed, at.t)
						r = r2
					}
				}
				o.Result = &r
			}(o)
		}
	}
	wg.Wait()
	phase("discharged")
	cwg.Wait()
	phase("covers")
	for i, o := range covers {
		switch coverRes[i] {
		case "sat":
			res.CoverSat++
		case "sat-relaxed":
			res.CoverRelaxed++
		case "unsat":
			expected := false
			for _, d := range meta.DeadReturns {
				if d == o.Name {
					expected = true
				}
			}
			if o.Vacuity {
				mine := len(o.Props) == 0
				for _, p := range o.Props {
					if p == prop {
						mine = true
					}
				}
				if mine {
					obls = append(obls, &Obligation{Name: o.Name, Func: o.Func, Kind: "vacuity", Props: o.Props, Src: o.Src, Pos: o.Pos,
						Result: &SolverResult{Status: "vacuous", Output: "the clause's condition is unsatisfiable where it is attached: it states nothing (wrong call-site ordinal?)"}})
				}
			} else if expected {
				res.CoverUnsat = append(res.CoverUnsat, o.Name+" (expected: dead by contract)")
			} else {
				res.CoverUnsat = append(res.CoverUnsat, o.Name)
				res.Lines = append(res.Lines, "WARNING unreachable-return "+o.Name+" "+o.Pos+": dead code, or contradictory premises on this path (obligations there hold vacuously)")
			}
		default:
			res.CoverUnknown++
		}
	}

	var staleNames []string
	for n := range staleFuncs {
		staleNames = append(staleNames, n)
	}
	sort.Strings(staleNames)
	for _, n := range staleNames {
		why := staleFuncs[n]
		res.Undecided = append(res.Undecided, map[string]interface{}{"function": n, "reasons": why})
		res.Lines = append(res.Lines, fmt.Sprintf("UNDECIDED property=%s function=%s: its contract no longer matches the code (%s); its obligations are not decided by proof on this tree, the bounded stand-ins decide", prop, n, why[0]))
	}

	// 3. bounded stand-ins
	for _, b := range meta.Bounded {
		br := runBounded(v, root, repo, prop, b, tier, seed)
		res.Bounded = append(res.Bounded, br.Info)
		for _, kl := range br.KnownLines {
			res.Known++
			res.Lines = append(res.Lines, kl)
		}
		if !br.OK {
			res.Lines = append(res.Lines, br.Lines...)
			if br.Known {
				res.Known++
			} else {
				res.Violations++
			}
		}
	}

	// 4. report
	sort.SliceStable(obls, func(i, j int) bool { return obls[i].Name < obls[j].Name })
	replayDir := filepath.Join(root, "replays", prop)
	for _, o := range obls {
		r := o.Result
		rep := oblReport{Name: o.Name, Kind: o.Kind, Status: r.Status, Solver: r.Solver, Ms: r.Ms, Clause: o.Src, Pos: o.Pos, Solvers: r.All}
		res.Reports = append(res.Reports, rep)
		res.Obligations++
		res.SolverMs += r.Ms
		if r.Status == "unsat" {
			res.Discharged++
			continue
		}
		if r.Status == "error" {
			res.ToolError = "solver error on " + o.Name + ": " + firstLines(r.Output, 2)
			continue
		}
		// failed obligation
		kf := matchKnown(known, prop, o.Name)
		if kf != nil {
			res.Known++
			res.Lines = append(res.Lines, fmt.Sprintf("KNOWN-FINDING: property=%s %s (obligation %s)", prop, kf.What, o.Name))
			continue
		}
		res.Violations++
		path, confirmed := writeReplay(v, o, replayDir, work, repo, root, prop, seed)
		line := fmt.Sprintf("VIOLATION property=%s replay=%s", prop, path)
		if !confirmed {
			line += " no-failing-input-found"
		}
		res.Lines = append(res.Lines, fmt.Sprintf("FAILED-OBLIGATION %s status=%s clause: %s", o.Name, r.Status, o.Src))
		res.Lines = append(res.Lines, line)
	}
	for f := range funcSet {
		res.Funcs = append(res.Funcs, f)
	}
	sort.Strings(res.Funcs)
	for t := range trusted {
		res.Trusted = append(res.Trusted, t)
	}
	sort.Strings(res.Trusted)
	for u := range uncon {
		res.Uncontracted = append(res.Uncontracted, u)
	}
	sort.Strings(res.Uncontracted)
	for u := range inlinedSet {
		res.Inlined = append(res.Inlined, u)
	}
	sort.Strings(res.Inlined)
	res.Assumptions = append(res.Assumptions, meta.Assumptions...)
	res.Level = meta.Level
	if res.Obligations == 0 && len(meta.Bounded) == 0 {
		res.ToolError = "no obligations generated for " + prop
	}
	return res
}

func matchKnown(known []KnownFinding, prop, name string) *KnownFinding {
	for i := range known {
		k := &known[i]
		if k.Property != prop || k.Status != "known" {
			continue
		}
		if ok, _ := regexp.MatchString(k.Obligation, name); ok {
			return k
		}
	}
	return nil
}

func (o *Obligation) solverPref() []string { return nil }

// trustedUsed: names of trusted contracts and uninterpreted symbols this encoding relied on.
func (e *enc) trustedUsed() []string {
	var out []string
	for n := range e.usedTrusted {
		out = append(out, n)
	}
	return out
}

func writeEvidence(root string, r *CheckResult) {
	if r.Property == "" {
		return
	}
	samples := []interface{}{}
	for i, rep := range r.Reports {
		if i < 400 {
			samples = append(samples, rep)
		}
	}
	level := "proof"
	slow := append([]oblReport{}, r.Reports...)
	sort.Slice(slow, func(i, j int) bool { return slow[i].Ms > slow[j].Ms })
	if len(slow) > 25 {
		slow = slow[:25]
	}
	var slowest []string
	for _, x := range slow {
		slowest = append(slowest, fmt.Sprintf("%dms %s [%s]", x.Ms, x.Name, x.Solver))
	}
	byBackend := map[string]int{}
	for _, x := range r.Reports {
		byBackend[x.Solver]++
	}
	cov := map[string]interface{}{
		"slowest_obligations": slowest,
		"discharged_by_backend": byBackend,
		"obligations":   r.Obligations,
		"discharged":    r.Discharged,
		"checker_cmd":   fmt.Sprintf("bin/govc check --property %s --tier %s  (VC generator over go/ssa of /repo's working tree; obligations raced on z3 5.1.0 (z3-new) and cvc5 1.0.3; first unsat discharges)", r.Property, r.Tier),
		"trusted_base":  append([]string{"go/packages + go/ssa lowering (x/tools v0.29.0)", "govc VC generator and its encoding of SSA (this repository, /verif/engine)", "SMT solvers z3 5.1.0 / cvc5 1.0.3", "stdlib contract table /verif/specs/10_stdlib.spec (entries used listed below)"}, r.Trusted...),
		"samples":       samples,
		"functions_under_contract": r.Funcs,
		"solver_time_ms": r.SolverMs,
		"bounded":       r.Bounded,
		"known_findings_reported": r.Known,
		"selftest_seeded_changes": r.Selftest,
		"vacuity_covers": map[string]interface{}{"reachable_sat": r.CoverSat, "reachable_sat_quantifier_free_relaxation": r.CoverRelaxed, "undecided": r.CoverUnknown, "unreachable": r.CoverUnsat,
			"rule": "one query per return statement of every function under contract: premises + path condition must be satisfiable; guards against contradictory contracts/axioms"},
		"uncontracted_callees_havocked": r.Uncontracted,
		"helpers_verified_inline": r.Inlined,
		"undecided_functions_contract_stale": r.Undecided,
		"explanation":   "deductive: every obligation generated from the current source must be unsat-discharged; bounded stand-ins (if any) are listed under 'bounded' and are not counted in obligations/discharged",
	}
	if r.Obligations == 0 {
		// only bounded stand-ins ran
		level = "other"
	}
	if r.Level != "" {
		level = r.Level
	}
	ev := map[string]interface{}{
		"property_id": r.Property, "tier": r.Tier, "seed": r.Seed, "level": level, "coverage": cov,
		"assumptions": append([]string{"int is 64 bit; integer arithmetic wraps exactly as in Go", "floats are finite reals; int->float conversion exact (|x| <= 2^53 where a clause depends on it)", "strings are byte strings; termination only where a decreases clause is given"}, r.Assumptions...),
		"wall_s":      r.WallS, "violations": r.Violations,
	}
	data, _ := json.MarshalIndent(ev, "", " ")
	os.MkdirAll(filepath.Join(root, "evidence"), 0755)
	os.WriteFile(filepath.Join(root, "evidence", r.Property+".json"), data, 0644)
}

// runSeededSelftest (thorough tier): every seeded change recorded for this property under /verif/seeded is applied to a
// scratch copy of the repository (removed afterwards) and the property's quick check is run there; the change must be
// reported. The result is evidence about the strength of the check; it does not change the verdict on the real tree.
func runSeededSelftest(repo, root, prop string, seed int) map[string]interface{} {
	dirs, _ := filepath.Glob(filepath.Join(root, "seeded", prop+"-*"))
	sort.Strings(dirs)
	var killed, missed, skipped []string
	for _, d := range dirs {
		patch := filepath.Join(d, "patch.diff")
		scr, err := os.MkdirTemp("", "govc-seed-")
		if err != nil {
			continue
		}
		ok := exec.Command("cp", "-r", repo+"/.", scr).Run() == nil
		if ok {
			c := exec.Command("patch", "-p1", "-s", "--fuzz=3", "-i", patch)
			c.Dir = scr
			ok = c.Run() == nil
		}
		if !ok {
			skipped = append(skipped, filepath.Base(d)+" (patch does not apply to the current tree)")
			os.RemoveAll(scr)
			continue
		}
		r := runCheck(scr, root, prop, "quick", seed)
		if r.Violations > 0 {
			killed = append(killed, filepath.Base(d))
		} else {
			missed = append(missed, filepath.Base(d))
		}
		os.RemoveAll(scr)
	}
	return map[string]interface{}{"detected": killed, "missed": missed, "skipped": skipped,
		"rule": "each seeded property-breaking change (compiles, passes the pinned suite) applied to a scratch copy; the quick check must report a violation"}
}
