package main

// Contract expression language: Go-like expressions plus
//   a ==> b, a <==> b, forall(x Int, y String :: body), exists(...),
//   ite(c, a, b), old(e), has(m, k), spec-function calls with dotted names (rv.kind(v)).

import (
	"fmt"
	"strings"
	"unicode"
)

type Expr interface{ String() string }

type (
	EIdent  struct{ Name string }
	EInt    struct{ V string }
	EStr    struct{ V string } // decoded bytes
	EBool   struct{ V bool }
	ENil    struct{}
	EUnary  struct{ Op string; X Expr }
	EBinary struct {
		Op   string
		X, Y Expr
	}
	ECall struct {
		Fn   string
		Args []Expr
	}
	EIndex struct{ X, I Expr }
	ESlice struct{ X, Lo, Hi Expr } // Lo/Hi may be nil
	EField struct {
		X    Expr
		Name string
	}
	EQuant struct {
		Forall bool
		Vars   [][2]string // name, sort
		Body   Expr
		Trig   []Expr // optional trigger terms: forall(j Int :: {a[j]} body)
	}
)

func (e *EIdent) String() string  { return e.Name }
func (e *EInt) String() string    { return e.V }
func (e *EStr) String() string    { return fmt.Sprintf("%q", e.V) }
func (e *EBool) String() string   { return fmt.Sprint(e.V) }
func (e *ENil) String() string    { return "nil" }
func (e *EUnary) String() string  { return "(" + e.Op + e.X.String() + ")" }
func (e *EBinary) String() string { return "(" + e.X.String() + " " + e.Op + " " + e.Y.String() + ")" }
func (e *ECall) String() string {
	var a []string
	for _, x := range e.Args {
		a = append(a, x.String())
	}
	return e.Fn + "(" + strings.Join(a, ", ") + ")"
}
func (e *EIndex) String() string { return e.X.String() + "[" + e.I.String() + "]" }
func (e *ESlice) String() string {
	lo, hi := "", ""
	if e.Lo != nil {
		lo = e.Lo.String()
	}
	if e.Hi != nil {
		hi = e.Hi.String()
	}
	return e.X.String() + "[" + lo + ":" + hi + "]"
}
func (e *EField) String() string { return e.X.String() + "." + e.Name }
func (e *EQuant) String() string {
	q := "exists"
	if e.Forall {
		q = "forall"
	}
	var vs []string
	for _, v := range e.Vars {
		vs = append(vs, v[0]+" "+v[1])
	}
	return q + "(" + strings.Join(vs, ", ") + " :: " + e.Body.String() + ")"
}

type tok struct {
	kind string // id, int, str, char, op, eof
	text string
}

func lexExpr(s string) ([]tok, error) {
	var out []tok
	i := 0
	for i < len(s) {
		c := s[i]
		switch {
		case c == ' ' || c == '\t' || c == '\n':
			i++
		case c == '/' && i+1 < len(s) && s[i+1] == '/':
			i = len(s) // trailing comment
		case unicode.IsLetter(rune(c)) || c == '_':
			j := i
			for j < len(s) && (unicode.IsLetter(rune(s[j])) || unicode.IsDigit(rune(s[j])) || s[j] == '_' || s[j] == '#' || s[j] == '$') {
				j++
			}
			out = append(out, tok{"id", s[i:j]})
			i = j
		case c >= '0' && c <= '9':
			j := i
			for j < len(s) && (s[j] >= '0' && s[j] <= '9' || s[j] == '_') {
				j++
			}
			txt := strings.ReplaceAll(s[i:j], "_", "")
			// 2^53 style
			if j < len(s) && s[j] == '^' {
				k := j + 1
				for k < len(s) && s[k] >= '0' && s[k] <= '9' {
					k++
				}
				base, exp := atoiBig(txt), int(atoiBig(s[j+1:k]).Int64())
				txt = powBig(base, exp).String()
				j = k
			}
			out = append(out, tok{"int", txt})
			i = j
		case c == '"':
			j := i + 1
			var b []byte
			for j < len(s) && s[j] != '"' {
				if s[j] == '\\' && j+1 < len(s) {
					j++
					switch s[j] {
					case 'n':
						b = append(b, '\n')
					case 't':
						b = append(b, '\t')
					case 'r':
						b = append(b, '\r')
					case '0':
						b = append(b, 0)
					case 'x':
						if j+2 < len(s) {
							var v int
							fmt.Sscanf(s[j+1:j+3], "%02x", &v)
							b = append(b, byte(v))
							j += 2
						}
					default:
						b = append(b, s[j])
					}
					j++
					continue
				}
				b = append(b, s[j])
				j++
			}
			if j >= len(s) {
				return nil, fmt.Errorf("unterminated string in %q", s)
			}
			out = append(out, tok{"str", string(b)})
			i = j + 1
		case c == '\'':
			// char literal 'x' or '\''
			j := i + 1
			var ch byte
			if j < len(s) && s[j] == '\\' && j+1 < len(s) {
				switch s[j+1] {
				case 'n':
					ch = '\n'
				case 't':
					ch = '\t'
				case 'r':
					ch = '\r'
				case '0':
					ch = 0
				default:
					ch = s[j+1]
				}
				j += 2
			} else if j < len(s) {
				ch = s[j]
				j++
			}
			if j >= len(s) || s[j] != '\'' {
				return nil, fmt.Errorf("bad char literal in %q", s)
			}
			out = append(out, tok{"int", fmt.Sprint(int(ch))})
			i = j + 1
		default:
			ops := []string{"<==>", "==>", "::", "&&", "||", "==", "!=", "<=", ">=", "++", "<", ">", "+", "-", "*", "/", "%", "!", "(", ")", "[", "]", ",", ":", ".", "{", "}"}
			matched := false
			for _, op := range ops {
				if strings.HasPrefix(s[i:], op) {
					out = append(out, tok{"op", op})
					i += len(op)
					matched = true
					break
				}
			}
			if !matched {
				return nil, fmt.Errorf("unexpected character %q in %q", c, s)
			}
		}
	}
	out = append(out, tok{"eof", ""})
	return out, nil
}

type exprParser struct {
	toks []tok
	pos  int
	src  string
}

func ParseExpr(s string) (e Expr, err error) {
	toks, err := lexExpr(s)
	if err != nil {
		return nil, err
	}
	p := &exprParser{toks: toks, src: s}
	defer func() {
		if r := recover(); r != nil {
			if pe, ok := r.(parseErr); ok {
				err = fmt.Errorf("%s in %q", string(pe), s)
				return
			}
			panic(r)
		}
	}()
	e = p.parseIff()
	if p.peek().kind != "eof" {
		p.fail("trailing tokens at %q", p.peek().text)
	}
	return e, nil
}

type parseErr string

func (p *exprParser) fail(f string, a ...interface{}) { panic(parseErr(fmt.Sprintf(f, a...))) }
func (p *exprParser) peek() tok                     { return p.toks[p.pos] }
func (p *exprParser) next() tok                     { t := p.toks[p.pos]; p.pos++; return t }
func (p *exprParser) isOp(op string) bool {
	t := p.peek()
	return t.kind == "op" && t.text == op
}
func (p *exprParser) expect(op string) {
	if !p.isOp(op) {
		p.fail("expected %q, got %q", op, p.peek().text)
	}
	p.pos++
}

func (p *exprParser) parseIff() Expr {
	x := p.parseImp()
	for p.isOp("<==>") {
		p.next()
		y := p.parseImp()
		x = &EBinary{"<==>", x, y}
	}
	return x
}
func (p *exprParser) parseImp() Expr {
	x := p.parseOr()
	if p.isOp("==>") {
		p.next()
		y := p.parseImp() // right assoc
		return &EBinary{"==>", x, y}
	}
	return x
}
func (p *exprParser) parseOr() Expr {
	x := p.parseAnd()
	for p.isOp("||") {
		p.next()
		x = &EBinary{"||", x, p.parseAnd()}
	}
	return x
}
func (p *exprParser) parseAnd() Expr {
	x := p.parseCmp()
	for p.isOp("&&") {
		p.next()
		x = &EBinary{"&&", x, p.parseCmp()}
	}
	return x
}
func (p *exprParser) parseCmp() Expr {
	x := p.parseAdd()
	// chained comparisons a <= b < c  ==> (a<=b) && (b<c)
	var res Expr
	for {
		t := p.peek()
		if t.kind == "op" && (t.text == "==" || t.text == "!=" || t.text == "<" || t.text == "<=" || t.text == ">" || t.text == ">=") {
			p.next()
			y := p.parseAdd()
			c := &EBinary{t.text, x, y}
			if res == nil {
				res = c
			} else {
				res = &EBinary{"&&", res, c}
			}
			x = y
			continue
		}
		break
	}
	if res != nil {
		return res
	}
	return x
}
func (p *exprParser) parseAdd() Expr {
	x := p.parseMul()
	for p.isOp("+") || p.isOp("-") || p.isOp("++") {
		op := p.next().text
		x = &EBinary{op, x, p.parseMul()}
	}
	return x
}
func (p *exprParser) parseMul() Expr {
	x := p.parseUnary()
	for p.isOp("*") || p.isOp("/") || p.isOp("%") {
		op := p.next().text
		x = &EBinary{op, x, p.parseUnary()}
	}
	return x
}
func (p *exprParser) parseUnary() Expr {
	if p.isOp("!") {
		p.next()
		return &EUnary{"!", p.parseUnary()}
	}
	if p.isOp("-") {
		p.next()
		return &EUnary{"-", p.parseUnary()}
	}
	return p.parsePostfix()
}
func (p *exprParser) parsePostfix() Expr {
	x := p.parsePrimary()
	for {
		switch {
		case p.isOp("["):
			p.next()
			var lo, hi Expr
			if p.isOp(":") {
				p.next()
				if !p.isOp("]") {
					hi = p.parseIff()
				}
				p.expect("]")
				x = &ESlice{x, nil, hi}
				continue
			}
			lo = p.parseIff()
			if p.isOp(":") {
				p.next()
				if !p.isOp("]") {
					hi = p.parseIff()
				}
				p.expect("]")
				x = &ESlice{x, lo, hi}
				continue
			}
			p.expect("]")
			x = &EIndex{x, lo}
		case p.isOp("."):
			p.next()
			t := p.next()
			if t.kind != "id" {
				p.fail("expected field name after '.'")
			}
			// dotted call: a.b(args) where a is plain identifier => spec function "a.b"
			if id, ok := x.(*EIdent); ok && p.isOp("(") {
				p.next()
				args := p.parseArgs()
				x = &ECall{id.Name + "." + t.text, args}
				continue
			}
			x = &EField{x, t.text}
		default:
			return x
		}
	}
}
func (p *exprParser) parseArgs() []Expr {
	var args []Expr
	if p.isOp(")") {
		p.next()
		return args
	}
	for {
		args = append(args, p.parseIff())
		if p.isOp(",") {
			p.next()
			continue
		}
		p.expect(")")
		return args
	}
}
func (p *exprParser) parsePrimary() Expr {
	t := p.next()
	switch t.kind {
	case "int":
		return &EInt{t.text}
	case "str":
		return &EStr{t.text}
	case "id":
		switch t.text {
		case "true":
			return &EBool{true}
		case "false":
			return &EBool{false}
		case "nil":
			return &ENil{}
		case "forall", "exists":
			p.expect("(")
			var vars [][2]string
			for {
				n := p.next()
				if n.kind != "id" {
					p.fail("expected bound variable name")
				}
				s := p.next()
				if s.kind != "id" {
					p.fail("expected sort of bound variable %s", n.text)
				}
				vars = append(vars, [2]string{n.text, s.text})
				if p.isOp(",") {
					p.next()
					continue
				}
				break
			}
			p.expect("::")
			var trig []Expr
			if p.isOp("{") {
				p.next()
				for {
					trig = append(trig, p.parseIff())
					if p.isOp(",") {
						p.next()
						continue
					}
					break
				}
				p.expect("}")
			}
			body := p.parseIff()
			p.expect(")")
			return &EQuant{t.text == "forall", vars, body, trig}
		}
		if p.isOp("(") {
			p.next()
			return &ECall{t.text, p.parseArgs()}
		}
		return &EIdent{t.text}
	case "op":
		if t.text == "(" {
			e := p.parseIff()
			p.expect(")")
			return e
		}
	}
	p.fail("unexpected tok %q", t.text)
	return nil
}
