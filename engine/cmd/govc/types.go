package main

import (
	"fmt"
	"go/types"
	"strings"
)

// Sorts of the encoding. Go values are mapped as follows:
//   intN/uintN/uintptr          Int   (with range; arithmetic wraps explicitly)
//   bool                        Bool
//   string                      String (one SMT character per byte)
//   float32/64                  Real  (finite values only)
//   *T, map, func, chan         Int   (reference; 0 = nil)
//   []T                         Slice datatype (ptr, off, len, cap); elements in Mem.<sort>
//   [n]T (value)                (Array Int <sort T>)
//   interface (not reflect.Type) Iface datatype (type tag, boxed payload)
//   reflect.Value               RVal, reflect.Type  RType
//   struct S (value)            datatype S.<name>

type Sort = string

const modPath = "gitee.com/xuesongtao/protoc-go-valid/"

func shortPkg(p string) string {
	p = strings.TrimPrefix(p, modPath)
	if p == "gitee.com/xuesongtao/protoc-go-valid" {
		return "main"
	}
	if p == "valid/internal" {
		return "internal"
	}
	return p
}

func typeName(t types.Type) string {
	s := types.TypeString(t, func(p *types.Package) string { return shortPkg(p.Path()) })
	return s
}

func symSafe(s string) string {
	var b strings.Builder
	for i := 0; i < len(s); i++ {
		c := s[i]
		if c >= 'a' && c <= 'z' || c >= 'A' && c <= 'Z' || c >= '0' && c <= '9' || c == '_' || c == '.' || c == '!' || c == '$' {
			b.WriteByte(c)
		} else {
			b.WriteByte('_')
		}
	}
	return b.String()
}

type structInfo struct {
	sort   Sort
	ctor   string
	fields []string // selector names
	fsorts []Sort
	st     *types.Struct
	name   string
}

type TypeEnv struct {
	decls    []string // sort declarations in dependency order
	structs  map[string]*structInfo
	declared map[string]bool
	tags     map[string]int // type name -> interface type tag
	tagTypes []types.Type
}

func NewTypeEnv() *TypeEnv {
	return &TypeEnv{structs: map[string]*structInfo{}, declared: map[string]bool{}, tags: map[string]int{}}
}

func isReflectValue(t types.Type) bool {
	if n, ok := t.(*types.Named); ok {
		o := n.Obj()
		return o.Pkg() != nil && o.Pkg().Path() == "reflect" && o.Name() == "Value"
	}
	return false
}
func isReflectType(t types.Type) bool {
	if n, ok := t.(*types.Named); ok {
		o := n.Obj()
		return o.Pkg() != nil && o.Pkg().Path() == "reflect" && o.Name() == "Type"
	}
	return false
}
func isNamed(t types.Type, pkg, name string) bool {
	if n, ok := t.(*types.Named); ok {
		o := n.Obj()
		return o.Pkg() != nil && o.Pkg().Path() == pkg && o.Name() == name
	}
	return false
}

// opaque struct types of the standard library are never opened up: a value of
// such a type is an uninterpreted Int token, a pointer to it is a reference.
func isOpaqueStruct(t types.Type) bool {
	n, ok := t.(*types.Named)
	if !ok {
		return false
	}
	if _, ok := n.Underlying().(*types.Struct); !ok {
		return false
	}
	o := n.Obj()
	if o.Pkg() == nil {
		return false
	}
	p := o.Pkg().Path()
	if strings.HasPrefix(p, modPath) || p == "gitee.com/xuesongtao/protoc-go-valid" {
		return false
	}
	switch p + "." + o.Name() {
	case "reflect.StructField", "container/list.Element", "go/ast.Field", "go/ast.BasicLit", "go/ast.CommentGroup", "go/ast.Comment",
		"go/ast.GenDecl", "go/ast.TypeSpec", "go/ast.StructType", "go/ast.FieldList", "go/ast.File":
		return false
	}
	return true
}

func (te *TypeEnv) SortOf(t types.Type) Sort {
	if isReflectValue(t) {
		return "RVal"
	}
	if isReflectType(t) {
		return "RType"
	}
	switch u := t.Underlying().(type) {
	case *types.Basic:
		switch {
		case u.Info()&types.IsBoolean != 0:
			return "Bool"
		case u.Info()&types.IsInteger != 0:
			return "Int"
		case u.Info()&types.IsFloat != 0:
			return "Real"
		case u.Info()&types.IsString != 0:
			return "String"
		case u.Kind() == types.UnsafePointer:
			return "Int"
		case u.Kind() == types.UntypedNil:
			return "Int"
		}
		return "Int"
	case *types.Pointer, *types.Map, *types.Chan, *types.Signature:
		return "Int"
	case *types.Slice:
		return "Slice"
	case *types.Array:
		return "(Array Int " + te.SortOf(u.Elem()) + ")"
	case *types.Interface:
		return "Iface"
	case *types.Struct:
		if isOpaqueStruct(t) {
			return "Int"
		}
		return te.structOf(t).sort
	case *types.Tuple:
		return "Tuple"
	}
	return "Int"
}

func (te *TypeEnv) structOf(t types.Type) *structInfo {
	name := typeName(t)
	if si, ok := te.structs[name]; ok {
		return si
	}
	st := t.Underlying().(*types.Struct)
	sname := "S." + symSafe(name)
	si := &structInfo{sort: sname, ctor: "mk." + sname, st: st, name: name}
	te.structs[name] = si
	var parts []string
	for i := 0; i < st.NumFields(); i++ {
		f := st.Field(i)
		fs := te.SortOf(f.Type())
		sel := sname + "." + f.Name()
		si.fields = append(si.fields, sel)
		si.fsorts = append(si.fsorts, fs)
		parts = append(parts, "("+sel+" "+fs+")")
	}
	if len(parts) == 0 {
		te.decls = append(te.decls, fmt.Sprintf("(declare-datatypes ((%s 0)) (((%s))))", sname, si.ctor))
	} else {
		te.decls = append(te.decls, fmt.Sprintf("(declare-datatypes ((%s 0)) (((%s %s))))", sname, si.ctor, strings.Join(parts, " ")))
	}
	return si
}

func (te *TypeEnv) FieldIndex(t types.Type, name string) int {
	st, ok := t.Underlying().(*types.Struct)
	if !ok {
		return -1
	}
	for i := 0; i < st.NumFields(); i++ {
		if st.Field(i).Name() == name {
			return i
		}
	}
	return -1
}

// Zero value term of a Go type.
func (te *TypeEnv) Zero(t types.Type) string {
	s := te.SortOf(t)
	return te.zeroOfSort(s, t)
}

func (te *TypeEnv) zeroOfSort(s Sort, t types.Type) string {
	switch s {
	case "Int":
		return "0"
	case "Bool":
		return "false"
	case "Real":
		return "0.0"
	case "String":
		return "\"\""
	case "Slice":
		return "nilslice"
	case "Iface":
		return "niliface"
	case "RVal":
		return "rv.zeroValue"
	case "RType":
		return "rt.nil"
	}
	if strings.HasPrefix(s, "(Array Int ") {
		if a, ok := t.Underlying().(*types.Array); ok {
			return "((as const " + s + ") " + te.Zero(a.Elem()) + ")"
		}
	}
	if st, ok := t.Underlying().(*types.Struct); ok && !isOpaqueStruct(t) {
		si := te.structOf(t)
		if st.NumFields() == 0 {
			return si.ctor
		}
		var parts []string
		for i := 0; i < st.NumFields(); i++ {
			parts = append(parts, te.Zero(st.Field(i).Type()))
		}
		return "(" + si.ctor + " " + strings.Join(parts, " ") + ")"
	}
	return "0"
}

// intRange returns (lo, hi, true) for integer types.
func intRange(t types.Type) (string, string, bool) {
	b, ok := t.Underlying().(*types.Basic)
	if !ok || b.Info()&types.IsInteger == 0 {
		return "", "", false
	}
	switch b.Kind() {
	case types.Int8:
		return "(- 128)", "127", true
	case types.Int16:
		return "(- 32768)", "32767", true
	case types.Int32, types.UntypedRune:
		return "(- 2147483648)", "2147483647", true
	case types.Int, types.Int64, types.UntypedInt:
		return "(- 9223372036854775808)", "9223372036854775807", true
	case types.Uint8:
		return "0", "255", true
	case types.Uint16:
		return "0", "65535", true
	case types.Uint32:
		return "0", "4294967295", true
	case types.Uint, types.Uint64, types.Uintptr:
		return "0", "18446744073709551615", true
	}
	return "", "", false
}

func intBits(t types.Type) (bits int, signed bool) {
	b, ok := t.Underlying().(*types.Basic)
	if !ok {
		return 64, true
	}
	switch b.Kind() {
	case types.Int8:
		return 8, true
	case types.Int16:
		return 16, true
	case types.Int32, types.UntypedRune:
		return 32, true
	case types.Int, types.Int64, types.UntypedInt:
		return 64, true
	case types.Uint8:
		return 8, false
	case types.Uint16:
		return 16, false
	case types.Uint32:
		return 32, false
	case types.Uint, types.Uint64, types.Uintptr:
		return 64, false
	}
	return 64, true
}

// wrapTo wraps a mathematical integer term into the range of t.
func wrapTo(term string, t types.Type) string {
	bits, signed := intBits(t)
	if signed {
		return fmt.Sprintf("(wrap_s%d %s)", bits, term)
	}
	return fmt.Sprintf("(wrap_u%d %s)", bits, term)
}

// TypeInv gives the facts every value of Go type t satisfies (assumed for inputs and havocked values).
func (te *TypeEnv) TypeInv(term string, t types.Type) string {
	if lo, hi, ok := intRange(t); ok {
		return and("(<= "+lo+" "+term+")", "(<= "+term+" "+hi+")")
	}
	if isReflectValue(t) || isReflectType(t) {
		return "true"
	}
	switch u := t.Underlying().(type) {
	case *types.Slice:
		return "(slice.wf " + term + ")"
	case *types.Pointer, *types.Map, *types.Signature, *types.Chan:
		return "(>= " + term + " 0)"
	case *types.Struct:
		if isOpaqueStruct(t) {
			return "true"
		}
		si := te.structOf(t)
		var parts []string
		for i := 0; i < u.NumFields(); i++ {
			parts = append(parts, te.TypeInv("("+si.fields[i]+" "+term+")", u.Field(i).Type()))
		}
		return and(parts...)
	case *types.Basic:
		if u.Info()&types.IsString != 0 {
			return "(<= (str.len " + term + ") 72057594037927936)" // address-space bound 2^56
		}
	}
	return "true"
}

// TagOf returns the interface type tag (a positive integer constant) of a concrete Go type.
func (te *TypeEnv) TagOf(t types.Type) int {
	n := typeName(t)
	if v, ok := te.tags[n]; ok {
		return v
	}
	v := len(te.tags) + 1
	te.tags[n] = v
	te.tagTypes = append(te.tagTypes, t)
	return v
}

// boxing of payloads into the universal Any sort
func boxFn(s Sort) string   { return "box." + sortKey(s) }
func unboxFn(s Sort) string { return "unbox." + sortKey(s) }

func sortKey(s Sort) string {
	r := strings.NewReplacer("(", "", ")", "", " ", "_")
	return r.Replace(s)
}
