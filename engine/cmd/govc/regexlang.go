package main

// Language obligations: for a package-level `regexp.MustCompile(<constant>)` the constant is read from
// the SSA of the package initialiser, parsed with regexp/syntax and translated to an SMT-LIB RegLan over
// code points; the spec language written in the contract file is translated the same way; the obligation
//   (xor (str.in_re s code) (str.in_re s spec))   must be unsat
// pins down the language `(*Regexp).MatchString` decides (search semantics: a match anywhere in s).

import (
	"fmt"
	"regexp/syntax"
	"strings"
	"unicode"
)

const smtMaxChar = 0x2FFFF // SMT-LIB 2.6 strings: code points 0 .. 0x2FFFF

func smtChar(r rune) string {
	if r > smtMaxChar {
		r = smtMaxChar
	}
	if r >= 0x20 && r < 0x7f && r != '"' && r != '\\' {
		return "\"" + string(r) + "\""
	}
	return fmt.Sprintf("\"\\u{%x}\"", r)
}

func smtRange(lo, hi rune) string {
	if lo > smtMaxChar {
		return "re.none"
	}
	if hi > smtMaxChar {
		hi = smtMaxChar
	}
	if lo == hi {
		return "(str.to_re " + smtChar(lo) + ")"
	}
	return "(re.range " + smtChar(lo) + " " + smtChar(hi) + ")"
}

func reUnion(xs []string) string {
	var ys []string
	for _, x := range xs {
		if x != "re.none" {
			ys = append(ys, x)
		}
	}
	switch len(ys) {
	case 0:
		return "re.none"
	case 1:
		return ys[0]
	}
	return "(re.union " + strings.Join(ys, " ") + ")"
}

func reConcat(xs []string) string {
	var ys []string
	for _, x := range xs {
		if x == "re.none" {
			return "re.none"
		}
		if x != "(str.to_re \"\")" {
			ys = append(ys, x)
		}
	}
	switch len(ys) {
	case 0:
		return "(str.to_re \"\")"
	case 1:
		return ys[0]
	}
	return "(re.++ " + strings.Join(ys, " ") + ")"
}

const reAll = "(re.* re.allchar)"

// reBody translates an anchor-free regexp to a RegLan denoting exactly the strings it matches entirely.
func reBody(re *syntax.Regexp) (string, error) {
	switch re.Op {
	case syntax.OpNoMatch:
		return "re.none", nil
	case syntax.OpEmptyMatch:
		return "(str.to_re \"\")", nil
	case syntax.OpLiteral:
		var parts []string
		for _, r := range re.Rune {
			if re.Flags&syntax.FoldCase != 0 && unicode.SimpleFold(r) != r {
				alts := []string{smtRange(r, r)}
				for f := unicode.SimpleFold(r); f != r; f = unicode.SimpleFold(f) {
					alts = append(alts, smtRange(f, f))
				}
				parts = append(parts, reUnion(alts))
			} else {
				parts = append(parts, smtRange(r, r))
			}
		}
		return reConcat(parts), nil
	case syntax.OpCharClass:
		var alts []string
		for i := 0; i+1 < len(re.Rune); i += 2 {
			alts = append(alts, smtRange(re.Rune[i], re.Rune[i+1]))
		}
		return reUnion(alts), nil
	case syntax.OpAnyCharNotNL:
		return reUnion([]string{smtRange(0, '\n'-1), smtRange('\n'+1, smtMaxChar)}), nil
	case syntax.OpAnyChar:
		return "re.allchar", nil
	case syntax.OpCapture:
		return reBody(re.Sub[0])
	case syntax.OpStar, syntax.OpPlus, syntax.OpQuest:
		s, err := reBody(re.Sub[0])
		if err != nil {
			return "", err
		}
		switch re.Op {
		case syntax.OpStar:
			return "(re.* " + s + ")", nil
		case syntax.OpPlus:
			return "(re.+ " + s + ")", nil
		}
		return "(re.opt " + s + ")", nil
	case syntax.OpRepeat:
		s, err := reBody(re.Sub[0])
		if err != nil {
			return "", err
		}
		if re.Max < 0 {
			return reConcat([]string{fmt.Sprintf("((_ re.^ %d) %s)", re.Min, s), "(re.* " + s + ")"}), nil
		}
		return fmt.Sprintf("((_ re.loop %d %d) %s)", re.Min, re.Max, s), nil
	case syntax.OpConcat:
		var parts []string
		for _, sub := range re.Sub {
			s, err := reBody(sub)
			if err != nil {
				return "", err
			}
			parts = append(parts, s)
		}
		return reConcat(parts), nil
	case syntax.OpAlternate:
		var alts []string
		for _, sub := range re.Sub {
			s, err := reBody(sub)
			if err != nil {
				return "", err
			}
			alts = append(alts, s)
		}
		return reUnion(alts), nil
	}
	return "", fmt.Errorf("regexp construct %s is not supported inside a pattern (anchors are supported only at the ends of a top-level alternative)", re.Op)
}

// reSearch translates a regexp to the RegLan of all strings in which it matches somewhere
// (the language decided by (*Regexp).MatchString). `^`/`$` (and \A, \z) are supported at the
// beginning/end of a top-level alternative, possibly inside capture groups.
func reSearch(re *syntax.Regexp) (string, error) {
	switch re.Op {
	case syntax.OpCapture:
		return reSearch(re.Sub[0])
	case syntax.OpAlternate:
		var alts []string
		for _, sub := range re.Sub {
			s, err := reSearch(sub)
			if err != nil {
				return "", err
			}
			alts = append(alts, s)
		}
		return reUnion(alts), nil
	}
	subs := []*syntax.Regexp{re}
	if re.Op == syntax.OpConcat {
		subs = re.Sub
	}
	begin, end := false, false
	if len(subs) > 0 && (subs[0].Op == syntax.OpBeginText || subs[0].Op == syntax.OpBeginLine && subs[0].Flags&syntax.OneLine != 0) {
		begin = true
		subs = subs[1:]
	}
	if len(subs) > 0 && subs[len(subs)-1].Op == syntax.OpEndText {
		end = true
		subs = subs[:len(subs)-1]
	}
	// a single remaining element that is itself an alternation/capture containing anchors
	if !begin && !end && len(subs) == 1 && (subs[0].Op == syntax.OpCapture || subs[0].Op == syntax.OpAlternate) && subs[0] != re {
		return reSearch(subs[0])
	}
	var parts []string
	if !begin {
		parts = append(parts, reAll)
	}
	for _, sub := range subs {
		s, err := reBody(sub)
		if err != nil {
			return "", err
		}
		parts = append(parts, s)
	}
	if !end {
		parts = append(parts, reAll)
	}
	return reConcat(parts), nil
}

func regexToSMT(pattern string) (string, error) {
	re, err := syntax.Parse(pattern, syntax.Perl)
	if err != nil {
		return "", fmt.Errorf("pattern does not parse: %v", err)
	}
	return reSearch(re)
}

func (v *Verifier) regexObligations(prop string) []*Obligation {
	var out []*Obligation
	for _, rs := range v.ct.Regexes {
		if !hasProp(rs.Props, prop) {
			continue
		}
		name := "language/" + rs.Global
		o := &Obligation{Name: name, Func: rs.Global, Kind: "language", Label: strings.TrimSpace(strings.Join(nonProps(rs.Label), " ")), Props: rs.Props,
			Src: rs.Global + " decides the language of " + rs.SpecRe, Pos: fmt.Sprintf("%s:%d", strings.TrimPrefix(rs.File, v.repo+"/"), rs.Line)}
		gname := "G." + rs.Global
		pat, ok := v.regexGlobals[gname]
		if !ok {
			o.Result = &SolverResult{Status: "missing", Output: "no package-level regexp.MustCompile(<constant>) named " + rs.Global + " (assigned once in the initialiser, never reassigned)"}
			o.Name = "contract-target-missing/" + name
			out = append(out, o)
			continue
		}
		var code, spec string
		var err1, err2 error
		if rs.Subset {
			code, err1 = regexFullSMT(pat)
			spec, err2 = regexFullSMT(rs.SpecRe)
		} else {
			code, err1 = regexToSMT(pat)
			spec, err2 = regexToSMT(rs.SpecRe)
		}
		if err1 != nil || err2 != nil {
			o.Kind = "unsupported"
			o.Result = &SolverResult{Status: "unsupported", Output: fmt.Sprintf("code pattern %q: %v; spec pattern %q: %v", pat, err1, rs.SpecRe, err2)}
			out = append(out, o)
			continue
		}
		o.Query = "(declare-const s String)\n(define-fun code.lang () RegLan " + code + ")\n(define-fun spec.lang () RegLan " + spec + ")\n" +
			"(assert (xor (str.in_re s code.lang) (str.in_re s spec.lang)))"
		if rs.Subset {
			o.Query = "(declare-const s String)\n(define-fun code.lang () RegLan " + code + ")\n(define-fun spec.lang () RegLan " + spec + ")\n" +
				"(assert (and (str.in_re s code.lang) (not (str.in_re s spec.lang))))"
			o.Src = rs.Global + " matches entirely only strings of the shape " + rs.SpecRe
		}
		o.Src += fmt.Sprintf("   (pattern in the code: %q)", pat)
		o.regexPattern, o.regexSpec = pat, rs.SpecRe
		out = append(out, o)
	}
	return out
}

func nonProps(label string) []string {
	var out []string
	for _, f := range strings.Fields(label) {
		if !(len(f) >= 3 && f[0] == 'C' && f[1] >= '0' && f[1] <= '9') {
			out = append(out, f)
		}
	}
	return out
}

// regexFullSMT: the strings the pattern matches entirely (as an element returned by FindAllString is); anchors are not supported here.
func regexFullSMT(pattern string) (string, error) {
	re, err := syntax.Parse(pattern, syntax.Perl)
	if err != nil {
		return "", fmt.Errorf("pattern does not parse: %v", err)
	}
	return reBody(re)
}
