#!/bin/bash
# usage: seed_verify.sh <Cxx> <A|B> [srcdir=/tmp/seedout]  — confirms a candidate change in a scratch worktree of /repo HEAD:
#   suite passes with the change, demo fails with it, demo passes without it; then stores it under /verif/seeded/<Cxx>-<X>/
set -u
export GOFLAGS=-mod=mod GOPROXY=off GOSUMDB=off GOTOOLCHAIN=local
id=$1; x=$2; src=${3:-/tmp/seedout}/$id/$x
[ -f "$src/patch.diff" ] || { echo "no patch in $src"; exit 2; }
wt=$(mktemp -d /tmp/seedwt.XXXXXX); rmdir "$wt"
git -C /repo worktree add --detach "$wt" HEAD >/dev/null 2>&1 || { echo "worktree failed"; exit 2; }
cleanup(){ git -C /repo worktree remove --force "$wt" >/dev/null 2>&1; rm -rf "$wt"; }
trap cleanup EXIT
cd "$wt"
ddir=$(python3 -c "import json;print(json.load(open('$src/meta.json')).get('demo_dir','valid/'))")
tname=$(grep -o 'func Test[A-Za-z0-9_]*' "$src/demo_test.go" | head -1 | sed 's/func //')
cp "$src/demo_test.go" "$ddir/zz_seed_demo_test.go"
base=$(go test -vet=off -count=1 -run "^${tname}\$" "./$ddir" 2>&1 | tail -3)
echo "$base" | grep -q "^ok" || { echo "DEMO FAILS ON UNCHANGED TREE: $base"; exit 1; }
if ! git apply "$src/patch.diff" 2>/tmp/seed_apply.err; then
  git apply --3way "$src/patch.diff" 2>>/tmp/seed_apply.err || { echo "PATCH DOES NOT APPLY: $(head -3 /tmp/seed_apply.err)"; exit 1; }
fi
withc=$(go test -vet=off -count=1 -run "^${tname}\$" "./$ddir" 2>&1 | tail -30)
echo "$withc" | grep -q -E "^(FAIL|--- FAIL|panic:)" || { echo "DEMO DOES NOT FAIL WITH CHANGE"; exit 1; }
rm "$ddir/zz_seed_demo_test.go"
suite=$(go build ./... 2>&1 && go test -vet=off -count=1 ./... 2>&1 | tail -6)
echo "$suite" | grep -q -E "^(FAIL|---|panic)" && { echo "SUITE FAILS WITH CHANGE: $suite"; exit 1; }
dst=/verif/seeded/$id-$x; mkdir -p "$dst"
git diff HEAD -- . ':!*_test.go' > "$dst/patch.diff"
cp "$src/demo_test.go" "$dst/demo_test.go"
python3 - "$src/meta.json" "$dst/meta.json" "$tname" "$ddir" <<'PY'
import json,sys
m=json.load(open(sys.argv[1]))
m['confirmed']={'by':'tools/seed_verify.sh in a scratch worktree of /repo HEAD','suite_with_change':'pass (go test -vet=off -count=1 ./...)','demo_with_change':'FAIL','demo_without_change':'pass','demo_test':sys.argv[3],'demo_dir':sys.argv[4]}
json.dump(m,open(sys.argv[2],'w'),indent=1,ensure_ascii=False)
PY
echo "CONFIRMED $id-$x ($tname)"
