#!/usr/bin/env python3
# writes /verif/seeded/INDEX.md from the stored changes and a regression log (label prop OK|ALARM ... lines from tools/par_run.sh)
import json,glob,os,sys,re
logs=sys.argv[1:] or ['/tmp/allmut2.log']
res={}
for log in logs:
  if os.path.exists(log):
    for l in open(log,errors='replace'):
        m=re.match(r'(C\d\d-[A-Z]) (C\d\d) (OK|ALARM)( replayed| no-input)?(.*)',l)
        if m:
            how='MISSED'
            if m.group(3)=='ALARM':
                rest=m.group(5)
                parts=[]
                if 'FAILED-OBLIGATION' in rest: parts.append('deductive')
                if 'FAILED-BOUNDED' in rest: parts.append('bounded')
                how=' + '.join(parts) or 'detected'
                if (m.group(4) or '').strip()=='replayed': how+=' (failing input replayed)'
            res[m.group(1)]=how
out=['# Seeded property-breaking changes (must-fail corpus)\n','Written by sub-agents that saw only the property text and a scratch worktree; each confirmed by `tools/seed_verify.sh` (suite passes with the change, demo fails with it, demo passes without it). "detected by" is the part of the property\'s own check that reports it on the last regression run (`tools/par_run.sh`).\n','| id | change | needs | detected by |','|---|---|---|---|']
for d in sorted(glob.glob('/verif/seeded/C*-*/')):
    i=os.path.basename(d.rstrip('/'))
    try: m=json.load(open(d+'meta.json'))
    except Exception: m={}
    def cl(x): return re.sub(r'\s+',' ',str(x)).replace('|','\\|')[:260]
    out.append(f"| {i} | {cl(m.get('summary',''))} | {cl(m.get('needs',''))} | {res.get(i,'see DESIGN §7')} |")
open('/verif/seeded/INDEX.md','w').write('\n'.join(out)+'\n')
print(len(out)-4,'entries;',sum(1 for v in res.values() if v!='MISSED'),'detected in log;',[k for k,v in res.items() if v=='MISSED'])
