#!/usr/bin/env python3
# usage: register.py Cxx category "level text" "level note" "technique"
import json,sys
pid,cat,text,note,tech=sys.argv[1:6]
m=json.load(open('/verif/MANIFEST.json'))
m['checks']=[c for c in m['checks'] if c['property_id']!=pid]
m['checks'].append({"property_id":pid,"quick_cmd":"bin/govc check --property %s --tier quick"%pid,"thorough_cmd":"bin/govc check --property %s --tier thorough"%pid,
 "evidence_file":"evidence/%s.json"%pid,"engine":"govc","replay_cmd_template":"cat {path}",
 "level_claimed":{"category":cat,"text":text,"design_ref":"DESIGN.md §7 "+pid},"level_note":note,"technique":tech})
m['checks'].sort(key=lambda c:c['property_id'])
m['not_applicable']=[x for x in m.get('not_applicable',[]) if x['property_id']!=pid]
for e in m['engines']:
    if e['name']=='govc' and pid not in e['serves_properties']:
        e['serves_properties'].append(pid); e['serves_properties'].sort()
json.dump(m,open('/verif/MANIFEST.json','w'),indent=1,ensure_ascii=False)
