#!/bin/bash
# usage: batch_seed.sh <srcdir> <Cxx> <X>...   — confirm each candidate, store it under /verif/seeded/, run the property's check on it
src=$1; id=$2; shift 2
for x in "$@"; do
  [ -f "$src/$id/$x/patch.diff" ] || { echo "$id-$x: no patch"; continue; }
  v=$(/verif/tools/seed_verify.sh $id $x $src 2>&1 | tail -1)
  case "$v" in CONFIRMED*) ;; *) echo "$id-$x: NOT CONFIRMED: $v"; continue;; esac
  r=$(/verif/tools/try_mutant.sh /verif/seeded/$id-$x/patch.diff $id 2>&1)
  if echo "$r" | grep -q "^VIOLATION"; then
     how=$(echo "$r" | grep -E "FAILED-OBLIGATION|FAILED-BOUNDED" | head -2 | cut -c1-110 | tr '\n' '|')
     echo "$id-$x: DETECTED  $how"
  else
     echo "$id-$x: MISSED    $(echo "$r" | tail -1 | cut -c1-120)"
  fi
done
