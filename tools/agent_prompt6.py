#!/usr/bin/env python3
# prints the prompt for a mutant-writing sub-agent: only the property's text and its scratch worktree
import json,sys
pid=sys.argv[1]
for l in open('/verif/properties.jsonl'):
    p=json.loads(l)
    if p['id']==pid: break
wt=f"/tmp/wt/{pid}"; out=f"/tmp/seedout6/{pid}"
print(f"""You are testing how well a Go library's behaviour is pinned down. The library is xuesongtao/protoc-go-valid (a struct-tag validation library with a small rule mini-language, an LRU type cache, and a CLI that injects tags into generated .pb.go files). You have your own scratch git worktree of it at {wt} (work ONLY there and in {out}; do not read or touch /repo, /verif or any other directory; the sandbox has no network).

Every shell command needs: export GOFLAGS=-mod=mod GOPROXY=off GOSUMDB=off GOTOOLCHAIN=local
The existing test suite is run with: cd {wt} && go test -vet=off -count=1 ./...   (it passes now).

Here is a semantic property the library is supposed to satisfy:

  Title: {p['title']}
  Statement: {p['statement']}
  Quantified over: {p['quantifier']['text']}

Your job: produce TWO different, independent changes (call them K and L) to the library's non-test source code, each of which BREAKS this property while (1) still compiling, and (2) still passing the whole existing test suite unchanged. Each change should be realistic (the kind of slip or 'optimisation' a maintainer could plausibly make: an off-by-one, a wrong branch, a dropped reset, a reordered statement, a widened/narrowed condition, a stale variable...), small (a few lines), and it should need something SPECIFIC to manifest — a particular unusual input, a multi-step sequence of operations, a particular interleaving, or two cooperating sites that each look fine alone — NOT something that ordinary use would expose at once. K and L must use different mechanisms and touch different functions; avoid the obvious candidates (assume that several people already tried the first ten ideas that come to mind, including: off-by-one in a comparison, a dropped reset of a loop variable, a break/continue/early return in a traversal loop, taking a pointer into a cached table, hoisting a default slice to package level, changing IsExported, swapping Stat/Lstat, changing a lock mode, LastIndex for Index, dropping an Unlock). At least one of the two should be a pair of cooperating edits in two different functions that each look harmless alone, or a change that only shows after a particular multi-step sequence of calls. Prefer changes in less central helper code, in rarely taken branches, or that only show with unusual but legal inputs. Do not edit or add anything under test files for the change itself, do not touch go.mod, and do not add new dependencies.

For each change X in {{K,L}} deliver, in {out}/X/ :
  - patch.diff : `git diff` of the change against the worktree's HEAD (only non-test source files), applicable with `git apply`.
  - demo_test.go : a Go test file (package matching the directory it must be placed in; say which directory at the top in a comment `// place in: valid/` etc.) containing one test that FAILS with the change applied and PASSES without it. It must demonstrate the property violation through the library's public behaviour (or, if needed, package-internal functions).
  - meta.json : {{"property": "{pid}", "summary": "...what was changed...", "needs": "...what specific input / sequence / interleaving is needed for it to manifest...", "demo_dir": "valid/", "demo_run": "go test -vet=off -count=1 -run TestName ./valid/"}}

Procedure for each change: make the edit in {wt}; run the full suite (must pass); put your demo test in place and run it (must fail); save the diff first (`git diff > ../patch.diff`), revert the source edit with `git apply -R` (NEVER use `git stash`: the stash is shared between worktrees) and run the demo again (must pass); save the three files; then fully revert the worktree (`git checkout -- . && git clean -fdq`) before starting the next change. At the end the worktree must be clean. Finish with a short report: for K and L, the one-line summary, and the exact commands you ran to confirm (suite passes with change; demo fails with change; demo passes without).""")
