#!/usr/bin/env python3
# usage: unsat_prefix.py file.smt2 — finds the shortest prefix of assertions (declarations kept) that is already unsat (QF relaxation first)
import sys,subprocess
s=open(sys.argv[1]).read().split('\n')
s=[l for l in s if not l.startswith('(check-sat') and not l.startswith('(get-model') and not l.startswith('(set-')]
idx=[i for i,l in enumerate(s) if l.startswith('(assert')]
def unsat(n):
    keep=set(idx[:n])
    q=['(set-logic ALL)']+[l for i,l in enumerate(s) if (i not in set(idx)) or i in keep]+['(check-sat)']
    open('/tmp/_p.smt2','w').write('\n'.join(q))
    r=subprocess.run(["z3","-T:8",'/tmp/_p.smt2'],capture_output=True,text=True).stdout.split('\n')[0]
    return r=='unsat'
lo,hi=0,len(idx)
if not unsat(hi): print("full prefix not unsat"); sys.exit()
while lo<hi:
    m=(lo+hi)//2
    if unsat(m): hi=m
    else: lo=m+1
print("first unsat at assertion #",lo); print(s[idx[lo-1]][:1500])
