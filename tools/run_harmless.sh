#!/bin/bash
# usage: run_harmless.sh <Cxx> [extra props...] — applies each behaviour-preserving edit in /tmp/harmless/<Cxx>/H* to a scratch copy and runs the checks; any VIOLATION is a false alarm
id=$1; shift
for d in /verif/harmless/$id-H*/; do
  h=$(basename $d | sed "s/.*-//")
  [ -f $d/patch.diff ] || continue
  r=$(/verif/tools/try_mutant.sh $d/patch.diff $id "$@" 2>&1)
  if echo "$r" | grep -a -q "^VIOLATION\|TOOL-ERROR\|DOES NOT APPLY"; then
    echo "$id-$h FALSE-ALARM  $(python3 -c "import json;print(json.load(open('$d/meta.json')).get('kind',''))" 2>/dev/null)"
    echo "$r" | grep -a -E "FAILED-OBLIGATION|FAILED-BOUNDED|TOOL-ERROR|DOES NOT" | head -4 | cut -c1-260 | sed 's/^/      /'
  else
    echo "$id-$h pass         $(python3 -c "import json;print(json.load(open('$d/meta.json')).get('kind',''))" 2>/dev/null)"
  fi
done
