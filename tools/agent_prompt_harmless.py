#!/usr/bin/env python3
# prints the prompt for a sub-agent that writes behaviour-PRESERVING edits (false-alarm corpus): only the property's text and its scratch worktree
import json,sys
pid=sys.argv[1]
for l in open('/verif/properties.jsonl'):
    p=json.loads(l)
    if p['id']==pid: break
wt=f"/tmp/wt/{pid}"; out=f"/tmp/harmless/{pid}"
files=", ".join(p.get('anchors',{}).get('files',[]))
print(f"""You are helping to evaluate a checker for a Go library. The library is xuesongtao/protoc-go-valid (a struct-tag validation library with a small rule mini-language, an LRU type cache, and a CLI that injects tags into generated .pb.go files). You have your own scratch git worktree of it at {wt} (work ONLY there and in {out}; do not read or touch /repo, /verif or any other directory; the sandbox has no network).

Every shell command needs: export GOFLAGS=-mod=mod GOPROXY=off GOSUMDB=off GOTOOLCHAIN=local
The existing test suite is run with: cd {wt} && go test -vet=off -count=1 ./...   (it passes now).

Here is a semantic property the library satisfies:

  Title: {p['title']}
  Statement: {p['statement']}
  Quantified over: {p['quantifier']['text']}
  The code it mostly depends on: {files}

Your job: produce FOUR different, independent edits (call them H1, H2, H3, H4) to the library's non-test source code in the functions this property depends on, each of which is a realistic maintenance edit that PRESERVES the library's observable behaviour completely (so the property still holds, for every input, exactly as before): the kind of harmless change that shows up in ordinary commits. Use a different kind of edit for each, for example: renaming local variables or a parameter; reordering two independent statements; replacing an index loop by a range loop or the other way round; extracting a few lines into a small unexported helper function (or inlining one); rewriting an if/else chain as a switch; hoisting a loop-invariant expression into a local; replacing string concatenation by an equivalent strings.Builder/fmt call or the reverse; adding or rewording comments and blank lines; introducing an early return that is equivalent to the existing nesting. Each edit should touch 3-25 lines and be confined to one or two functions. Do NOT change any exported signature, do NOT change behaviour in any corner case (same results, same error texts, same panics or absence of panics, same locking), do not touch test files, go.mod, or files whose name contains `_verif`.

For each edit X in {{H1,H2,H3,H4}} deliver, in {out}/X/ :
  - patch.diff : `git diff` of the edit against the worktree's HEAD, applicable with `git apply`.
  - meta.json : {{"property": "{pid}", "kind": "...kind of edit...", "summary": "...what was changed and why it cannot change behaviour..."}}

Procedure for each edit: make it in {wt}; run gofmt -l on the changed files (must print nothing) and the full suite (must pass); save the diff (`git diff > {out}/X/patch.diff`); then fully revert the worktree (`git checkout -- . && git clean -fdq`; NEVER use `git stash`) before starting the next one. At the end the worktree must be clean. Finish with a short report listing the four edits.""")
