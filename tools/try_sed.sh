#!/bin/bash
# usage: try_sed.sh <file relative to repo> <sed expr> <property>...  — applies an ad-hoc mutation to a scratch copy and runs checks there
set -u
f=$1; expr=$2; shift 2
scr=$(mktemp -d /tmp/scr.XXXXXX); cp -r /repo/. "$scr"/
before=$(md5sum "$scr/$f"); sed -i "$expr" "$scr/$f"; after=$(md5sum "$scr/$f")
[ "$before" = "$after" ] && { echo "SED DID NOT CHANGE ANYTHING"; rm -rf "$scr"; exit 3; }
(cd "$scr" && GOFLAGS=-mod=mod GOPROXY=off GOSUMDB=off GOTOOLCHAIN=local go build ./... 2>&1 | head -3; GOFLAGS=-mod=mod GOPROXY=off GOSUMDB=off GOTOOLCHAIN=local go test -vet=off -count=1 ./... 2>&1 | grep -c "^FAIL" | sed 's/^/suite FAIL lines: /')
for p in "$@"; do
  VERIF_REPO="$scr" /verif/bin/govc check --property "$p" --no-evidence 2>&1 | sed "s|$scr|/repo|g" | grep -E "VIOLATION|TOOL-ERROR|^property=" | cut -c1-200 | tail -3
done
rm -rf "$scr"
