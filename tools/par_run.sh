#!/bin/bash
# usage: par_run.sh <jobs-file> <out> [P]   — each line: <label> <patch> <prop>...; prints "<label> <prop> OK|ALARM ..." per line
jobs=$1; out=$2; P=${3:-3}
: > $out
run_one() {
  label=$1; patch=$2; shift 2
  r=$(/verif/tools/try_mutant.sh $patch "$@" 2>&1)
  if echo "$r" | grep -a -q "PATCH DOES NOT APPLY"; then echo "$label $* NOAPPLY"; return; fi
  for p in "$@"; do
    if echo "$r" | grep -a -q "^VIOLATION property=$p"; then
      if echo "$r" | grep -a "^VIOLATION property=$p" | grep -a -v -q "no-failing-input-found"; then k="ALARM replayed"; else k="ALARM no-input"; fi
      echo "$label $p $k :: $(echo "$r" | grep -a -E "FAILED-OBLIGATION|FAILED-BOUNDED" | head -2 | cut -c1-150 | tr '\n' '|')"
    elif ! echo "$r" | grep -a -q "^property=$p "; then
      echo "$label $p INCOMPLETE (the check did not print its summary line: killed or crashed)"
    else
      u=$(echo "$r" | grep -a -c "^UNDECIDED property=$p")
      echo "$label $p OK undecided=$u"
    fi
  done
}
export -f run_one
cat $jobs | xargs -P $P -L 1 bash -c 'run_one "$@"' _ >> $out
echo DONE >> $out
