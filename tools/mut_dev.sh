#!/bin/bash
# usage: mut_dev.sh <file relative to repo> <sed expr> <func,func...>  — ad-hoc mutation on a scratch copy, then `govc dev --func` there (must-fail probe for new contracts)
set -u
f=$1; expr=$2; fn=$3
scr=$(mktemp -d /tmp/scr.XXXXXX); cp -r /repo/. "$scr"/
before=$(md5sum < "$scr/$f"); sed -i "$expr" "$scr/$f"; after=$(md5sum < "$scr/$f")
[ "$before" = "$after" ] && { echo "SED DID NOT CHANGE ANYTHING"; rm -rf "$scr"; exit 3; }
(cd "$scr" && GOFLAGS=-mod=mod GOPROXY=off GOSUMDB=off GOTOOLCHAIN=local go build ./... 2>&1 | head -3)
VERIF_REPO="$scr" /verif/bin/govc dev --func "$fn" 2>&1 | grep -a -v "^ok" | cut -c1-220 | tail -12
rm -rf "$scr"
