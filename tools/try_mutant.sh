#!/bin/bash
# usage: try_mutant.sh <patch> <property>...   — applies the patch to a scratch copy of /repo and runs the checks there
set -u
patch=$1; shift
scr=$(mktemp -d /tmp/scr.XXXXXX)
# committed HEAD of /repo, so that contract edits in progress in the working tree do not leak into a regression run
git -C /repo archive HEAD | tar -x -C "$scr"; git -C "$scr" init -q 2>/dev/null
if ! git -C "$scr" apply "$patch" 2>/tmp/apply.err && ! git -C "$scr" apply --3way "$patch" 2>/tmp/apply.err && ! (cd "$scr" && patch -p1 --fuzz=3 -s < "$patch" 2>/tmp/apply.err >/dev/null); then echo "PATCH DOES NOT APPLY: $(head -3 /tmp/apply.err)"; rm -rf "$scr"; exit 3; fi
rc=0
for p in "$@"; do
  VERIF_REPO="$scr" /verif/bin/govc check --property "$p" --no-evidence 2>&1 | sed "s|$scr|/repo|g" | grep -E "VIOLATION|FAILED-OBLIGATION|KNOWN|TOOL-ERROR|^property=" | cut -c1-300
done
rm -rf "$scr"
