#!/bin/bash
# runs every stored seeded change against its own property's check; prints one line per change
out=${1:-/tmp/allmut.log}; : > $out
for d in /verif/seeded/C*/; do
  id=$(basename $d); p=${id%%-*}
  r=$(/verif/tools/try_mutant.sh $d/patch.diff $p 2>&1)
  if echo "$r" | grep -a -q "^VIOLATION"; then
    if echo "$r" | grep -a "^VIOLATION" | grep -a -v -q "no-failing-input-found"; then echo "$id DETECTED replayed" >> $out; else echo "$id DETECTED no-input" >> $out; fi
  else echo "$id MISSED $(echo "$r" | tail -1 | cut -c1-100)" >> $out; fi
done
echo DONE >> $out
