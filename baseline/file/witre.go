package file

import (
	"errors"
	"io"
	"io/ioutil"
	"os"

	"gitee.com/xuesongtao/protoc-go-valid/log"
)

func WriteFile(inputPath string, areas []textArea) (err error) {
	f, err := os.Open(inputPath)
	if err != nil {
		return
	}
	defer f.Close()

	contents, err := ioutil.ReadAll(f)
	if err != nil {
		return
	}

	// 处理 contents, 首先从文件的尾部注入自定义标记以保持顺序
	for i := 0; i < len(areas); i++ {
		area := areas[len(areas)-i-1]
		log.Infof("inject custom tag [%v] to expression [%v]", area.InjectTag, string(contents[area.Start-1:area.End-1]))
		contents = injectTag(contents, area)
	}

	if err = ioutil.WriteFile(inputPath, contents, 0644); err != nil {
		return
	}
	return
}

// CopyFile 复制文件
func CopyFile(src, dst string, isFirstDel ...bool) (err error) {
	if src == "" {
		return errors.New("source file cannot be empty")
	}

	if dst == "" {
		return errors.New("destination file cannot be empty")
	}

	// 如果相同就不处理
	if src == dst {
		return nil
	}

	// 删除原来的
	if len(isFirstDel) >0 && isFirstDel[0] {
		if err = os.Remove(dst); err != nil {
			return
		}
	}

	in, err := os.Open(src)
	if err != nil {
		return
	}
	defer func() {
		if e := in.Close(); e != nil {
			err = e
		}
	}()

	out, err := os.Create(dst)
	if err != nil {
		return
	}
	defer func() {
		if e := out.Close(); e != nil {
			err = e
		}
	}()

	// 复制
	if _, err = io.Copy(out, in); err != nil {
		return
	}

	// 写盘
	if err = out.Sync(); err != nil {
		return
	}

	// 调整权限
	if err = os.Chmod(dst, os.FileMode(0777)); err != nil {
		return
	}
	return
}
