package main

import (
	"bytes"
	"flag"
	"io/fs"
	"os"
	"path/filepath"
	"strings"

	"gitee.com/xuesongtao/protoc-go-valid/file"
	"gitee.com/xuesongtao/protoc-go-valid/log"
)

const (
	injectToolSh = "inject_tool.sh"
)

// copyInjectTool 将 inject_tool.sh 脚本移动到 GOPATH 下
func copyInjectTool() {
	goPath := os.Getenv("GOPATH")
	log.Info("GOPATH: ", goPath)
	if goPath == "" {
		log.Error("it is not found GOPATH, inject_tool.sh can not use")
		return
	}

	// 判断下是否已经移动了, 如果已经移动就不处理了
	dest := file.HandlePath(goPath) + injectToolSh
	if _, err := os.Stat(dest); os.IsExist(err) {
		return
	}

	// 复制
	if err := file.CopyFile(injectToolSh, dest); err != nil {
		log.Error("file.CopyFile is failed, err: ", err)
		return
	}
}

// createInjectToolSh 文件内容替换
func createInjectToolSh(template, create, old, new string) error {
	contentByte, err := os.ReadFile(template)
	if err != nil {
		return err
	}
	return os.WriteFile(create, bytes.ReplaceAll(contentByte, []byte(old), []byte(new)), fs.ModePerm)
}

// handleDir 按目录处理
func handleDir(dirPath string) (isHasMatch bool) {
	dirs, err := os.ReadDir(dirPath)
	if err != nil {
		log.Error("os.ReadDir is failed, err: ", err)
		return
	}

	dirPath = file.HandlePath(dirPath)
	for _, dir := range dirs {
		if dir.IsDir() {
			continue
		}
		isHasMatch = true

		filename := dirPath + dir.Name()
		_ = handleFile(filename)
	}
	return
}

// handlePatternFiles 根据路径表达式处理
func handlePatternFiles(pattern string) (isHasMatch bool) {
	filenames, err := filepath.Glob(pattern)
	if err != nil {
		log.Error("filepath.Glob is failed, err: ", err)
		return
	}

	for _, filename := range filenames {
		isHasMatch = true
		_ = handleFile(filename)
	}
	return
}

// handleFile 处理单个文件
func handleFile(filename string) (isHasMatch bool) {
	// 只处理 .go 文件
	if !strings.HasSuffix(filename, ".go") {
		return
	}
	isHasMatch = true

	log.Infof("parsing file %q for inject tag comments", filename)
	areas, err := file.ParseFile(filename)
	if err != nil {
		log.Error("file.ParseFile is failed, err: ", err)
		return
	}
	// log.Infof("areas: %+v", areas)

	if err = file.WriteFile(filename, areas); err != nil {
		log.Error("file.WriteFile is failed, err: ", err)
		return
	}
	log.Infof("file: %q is inject tag is success", filename)
	return
}

func main() {
	var (
		initProject                       bool
		inputDir, inputPattern, inputFile string
	)

	flag.BoolVar(&initProject, "init", false, "是否初始化项目, 如: protoc-go-valid -init=\"true\"")
	flag.StringVar(&inputDir, "d", "", "注入的目录, 如: protoc-go-valid -d \"./proto\"")
	flag.StringVar(&inputPattern, "p", "", "注入匹配到的多个文件, 如: protoc-go-valid -p \"./*.pb.go\"")
	flag.StringVar(&inputFile, "f", "", "注入的单个文件, 如: protoc-go-valid -f \"xxx.pb.go\"")
	flag.Parse()

	// 判断是否初始化
	if initProject {
		copyInjectTool()
		return
	}

	var isHasMatch bool
	if inputDir != "" {
		isHasMatch = handleDir(inputDir)
	} else if inputPattern != "" {
		isHasMatch = handlePatternFiles(inputPattern)
	} else {
		isHasMatch = handleFile(inputFile)
	}

	if !isHasMatch {
		log.Error("it is not matched files, see: -help")
	}
}
