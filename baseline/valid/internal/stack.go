package internal

type stackByte struct {
	data []byte
}

func NewStackByte(size int) *stackByte {
	return &stackByte{
		data: make([]byte, 0, size),
	}
}

func (s *stackByte) Append(b byte) {
	s.data = append(s.data, b)
}

func (s *stackByte) IsEmpty() bool {
	return len(s.data) == 0
}

func (s *stackByte) Pop() byte {
	if s.IsEmpty() {
		return byte(' ')
	}
	lastIndex := len(s.data) - 1
	b := s.data[lastIndex]
	if lastIndex >= 1 {
		s.data = append(s.data[:0], s.data[:lastIndex-1]...)
	} else {
		s.data = s.data[:0]
	}
	return b
}

func (s *stackByte) LastVal() byte {
	if s.IsEmpty() {
		return byte(' ')
	}
	return s.data[len(s.data)-1]
}

func (s *stackByte) IsEqualLastVal(b byte) bool {
	return s.LastVal() == b
}

func (s *stackByte) Reset() {
	s.data = nil
}
