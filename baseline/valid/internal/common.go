package internal

import "unsafe"

// UnsafeBytes2Str
func UnsafeBytes2Str(bytes []byte) string {
	return *(*string)(unsafe.Pointer(&bytes))
}

// UnsafeStr2Bytes
func UnsafeStr2Bytes(str string) []byte {
	return *(*[]byte)(unsafe.Pointer(&str))
}
