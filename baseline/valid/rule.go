package valid

import "strings"

// RM 字段的自定义验证规则, key 为字段名, value 为验证规则
type RM map[string]string

func NewRule() RM {
	return make(RM, 4)
}

// Set 设置验证规则
// fieldName 多个字段通过逗号隔开
// rules 多个字段通过逗号隔开
func (r RM) Set(filedNames string, rules ...string) RM {
	for _, fieldName := range strings.Split(filedNames, ",") {
		// 如果存在的话就通过逗号隔开
		if _, ok := r[fieldName]; ok {
			r[fieldName] += "," + strings.Join(rules, ",")
			continue
		}
		r[fieldName] = strings.Join(rules, ",")
	}
	return r
}

// Get 获取验证规则
func (r RM) Get(fieldName string) string {
	if len(r) == 0 || fieldName == "" {
		return ""
	}
	return r[fieldName]
}

// Deprecated: 名字存在歧义, 因为已上线不能删除, 特此标记, 推荐使用 GenValidKV
// JoinTag2Val 生成 defaultTargetTag 的值
func JoinTag2Val(key string, values ...string) string {
	return GenValidKV(key, values...)
}

// GenValidKV 生成 defaultTargetTag 的值
// 说明: 函数名主要用于生成(如: `valid:"xxx"`) 中 "xxx" 的部分
// key 为验证规则
// values[0] 会被解析为值
// values[1] 会被解析为自定义错误信息
// 如1.: GenValidKV(VTo, "1~10", "需要在 1-10 的区间")
// => to=1~10|需要在 1-10 的区间
//
// 如2: GenValidKV(VRe, "'\\d+'", "必须为纯数字")
// => re='\\d+'|必须为纯数字
func GenValidKV(key string, values ...string) string {
	l := len(values)
	if l == 0 {
		return key
	}

	buf := newStrBuf()
	defer putStrBuf(buf)
	buf.Grow(1 << 4)
	buf.WriteString(key)
	if values[0] != "" {
		// 判断第一个值得首字符是否为 "="
		if values[0][0] != '=' {
			buf.WriteByte('=')
		}

		// 处理 val 前缀
		// 说明: 为了兼容老版本 in, include, re 特此只处理了3个
		switch key {
		case VIn, VInclude:
			buf.WriteString("(" + values[0] + ")")
		case VRe:
			if len(values[0]) > 1 && (values[0][0] == '\'' || values[0][1] == '\'') {
				buf.WriteString(values[0])
			} else {
				buf.WriteString("'" + values[0] + "'")
			}
		default:
			buf.WriteString(values[0])
		}
	}

	// 自定义说明
	if l >= 2 {
		buf.WriteString("|" + values[1])
	}
	return buf.String()
}
