package valid

import (
	"errors"
	"reflect"
	"regexp"
	"strings"
	"sync"
	"time"
)

// err msg
const (
	strUnitStr      = "str-length"
	numUnitStr      = "num-size"
	sliceLenUnitStr = "slice-len"

	ExplainEn = "explain:"
	ExplainZh = "说明:"
)

// 时间格式
const (
	YearFmt int8 = 1 << iota
	MonthFmt
	DayFmt
	HourFmt
	MinFmt
	SecFmt

	DateFmt     = YearFmt | MonthFmt | DayFmt
	DateTimeFmt = DateFmt | HourFmt | MinFmt | SecFmt
)

// 验证 tag
const (
	Required    = "required"   // 必填
	Exist       = "exist"      // 有值才验证
	Either      = "either"     // 多个必须一个
	BothEq      = "botheq"     // 两者相等
	VTo         = "to"         // 两者之间, 闭区间
	VGe         = "ge"         // 大于或等于
	VLe         = "le"         // 小于或等于
	VOTo        = "oto"        // 两者之间, 开区间
	VGt         = "gt"         // 大于
	VLt         = "lt"         // 小于
	VEq         = "eq"         // 等于
	VNoEq       = "noeq"       // 不等于
	VIn         = "in"         // 指定输入选项
	VInclude    = "include"    // 指定输入包含选项
	VPhone      = "phone"      // 手机号
	VEmail      = "email"      // 邮箱
	VIDCard     = "idcard"     // 身份证号码
	VYear       = "year"       // 年
	VYear2Month = "year2month" // 年月
	VDate       = "date"       // 日
	VDatetime   = "datetime"   // 日期+时间点
	VInt        = "int"        // 整数
	VInts       = "ints"       // 多个数字验证
	VFloat      = "float"      // 浮动数
	VRe         = "re"         // 正则
	VIp         = "ip"         // ip
	VIpv4       = "ipv4"       // ipv4
	VIpv6       = "ipv6"       // ipv6
	VUnique     = "unique"     // 唯一验证
	VJson       = "json"       // json 格式验证
	VPrefix     = "prefix"     // 包含前缀
	VSuffix     = "suffix"     // 包含后缀
	VFile       = "file"       // 文件
	VDir        = "dir"        // 目录
)

// CommonValidFn 通用验证函数, 主要用于回调
// 注: 在写 errBuf 的时候建议用 GetJoinValidErrStr 包裹下, 这样产生的结果易读.
//
//	否则需要再 errBuf.WriteString 最后要加上 ErrEndFlag 分割, 工具是通过 ErrEndFlag 进行分句
type CommonValidFn func(errBuf *strings.Builder, validName, objName, fieldName string, tv reflect.Value)

// Name2FnMap 自定义验证名对应自定义验证函数
type Name2FnMap map[string]CommonValidFn

// 验证函数
var validName2FnMap = Name2FnMap{
	Required:    nil,
	Exist:       nil,
	Either:      nil,
	BothEq:      nil,
	VTo:         To,
	VGe:         Ge,
	VLe:         Le,
	VOTo:        OTo,
	VGt:         Gt,
	VLt:         Lt,
	VEq:         Eq,
	VNoEq:       NoEq,
	VIn:         In,
	VInclude:    Include,
	VPhone:      Phone,
	VEmail:      Email,
	VIDCard:     IDCard,
	VYear:       Year,
	VYear2Month: Year2Month,
	VDate:       Date,
	VDatetime:   Datetime,
	VInt:        Int,
	VInts:       Ints,
	VFloat:      Float,
	VRe:         Re,
	VIp:         Ip,
	VIpv4:       Ipv4,
	VIpv6:       Ipv6,
	VUnique:     Unique,
	VJson:       Json,
	VPrefix:     Prefix,
	VSuffix:     Suffix,
	VFile:       File,
	VDir:        Dir,
}

// 对象
var (
	syncValidStructPool = sync.Pool{New: func() interface{} { return new(VStruct) }}
	// 如果需要释放内存可以通过调用 SetStructTypeCache, 如: SetStructTypeCache(NewLRU(2 << 8))
	// 考虑到性能, 用 sync.Map 缓存(缺点: 内存释放不到)
	// cacheStructType  CacheEr = new(sync.Map)
	cacheStructType  CacheEr = NewLRU(lruSize)
	syncValidVarPool         = sync.Pool{New: func() interface{} { return new(VVar) }}
	syncBufPool              = sync.Pool{New: func() interface{} { return new(strings.Builder) }}
	timeReflectType          = reflect.TypeOf(time.Time{})
	once             sync.Once
)

// 标记
var (
	defaultTargetTag = "valid" // 默认的验证 tag
	ErrEndFlag       = "; "    // 错误结束符号(每个自定义 err 都需要将这个追加在后面, 用于分句)
)

// 错误
var (
	toValErr = errors.New(defaultTargetTag + " \"to\" is not ok, eg: " +
		"type Test struct {\n" +
		"    Name string `valid:\"to=1~10\"`\n" +
		"}")

	otoValErr = errors.New(defaultTargetTag + " \"to\" is not ok, eg: " +
		"type Test struct {\n" +
		"    Name string `valid:\"oto=1~10\"`\n" +
		"}")

	eitherValErr = errors.New(defaultTargetTag + " \"either\" is not ok, eg: " +
		"type Test struct {\n" +
		"    OrderNo string `valid:\"either=1\"`\n" +
		"    TradeNo sting `valid:\"either=1\"`\n" +
		"}, errMsg: \"OrderNo\" either \"TradeNo\" they shouldn't all be empty")

	bothEqValErr = errors.New(defaultTargetTag + " \"botheq\" is not ok, eg: " +
		"type Test struct {\n" +
		"    OrderNo string `valid:\"botheq=1\"`\n" +
		"    TradeNo sting `valid:\"botheq=1\"`\n" +
		"}, errMsg: \"OrderNo\" either \"TradeNo\" they shouldn't is no equal")

	inValErr = errors.New(defaultTargetTag + " \"in\" is not ok, eg: " +
		"type Test struct {\n" +
		"   hobby int `valid:\"in=(1/2/3)\"`\n" +
		"}")

	includeErr = errors.New(defaultTargetTag + " \"include\" is not ok, filed type must is string, eg: " +
		"type Test struct {\n" +
		"    Name string `valid:\"include=(ab/cd)\"`\n" +
		"}")

	reErr = errors.New(defaultTargetTag + " \"re\" is not ok, eg: " +
		"type Test struct {\n" +
		"    Age string `valid:\"re='\\\\d+'\"`\n" +
		"}")

	intsErr = errors.New(defaultTargetTag + " \"ints\" is not ok, eg: " +
		"type Test struct {\n" +
		"    Hobby1 string `valid:\"ints\"`\n" + // 默认按 "," 进行分割对字符串进行判断是否为整数
		"    Hobby2 string `valid:\"ints=-\"`\n" + // 按 "-" 进行分割对字符串进行判断是否为整数
		"    Hobby3 []string `valid:\"ints\"`\n" + // 遍历切片中的元素是否为整数
		"}")

	uniqueErr = errors.New(defaultTargetTag + " \"unique\" is not ok, eg: " +
		"type Test struct {\n" +
		"    Hobby1 string `valid:\"unique\"`\n" + // 按 "," 进行分割对字符串进行判断是否唯一
		"    Hobby2 []string `valid:\"unique\"`\n" + // 遍历切片中的元素是否唯一
		"}")
)

// 正则
var (
	IncludeZhRe = regexp.MustCompile("[\u4e00-\u9fa5]")         // 中文
	PhoneRe     = regexp.MustCompile(`^1[3-9]\d{9}$`) // 手机号
	Ipv4Re      = regexp.MustCompile(`^((25[0-5]|2[0-4]\d|[01]?\d\d?)\.){3}(25[0-5]|2[0-4]\d|[01]?\d\d?)$`)
	EmailRe     = regexp.MustCompile(`^\w+([-+.]\w+)*@\w+([-.]\w+)*\.\w+([-.]\w+)*$`)
	IdCardRe    = regexp.MustCompile(`(^\d{15}$)|(^\d{18}$)|(^\d{17}(\d|X|x)$)`)
	IntRe       = regexp.MustCompile(`^\d+$`)
	FloatRe     = regexp.MustCompile(`^\d+\.\d+$`)

	// Deprecated
	YearRe = regexp.MustCompile(`^\d{4}$`)
	// Deprecated
	Year2MonthRe = regexp.MustCompile(`^\d{4}-\d{2}$`)
	// Deprecated
	Year2MonthRe2 = regexp.MustCompile(`^\d{4}/\d{2}$`)
	// Deprecated
	DateRe = regexp.MustCompile(`^\d{4}-\d{2}-\d{2}$`)
	// Deprecated
	DateRe2 = regexp.MustCompile(`^\d{4}/\d{2}/\d{2}$`)
	// Deprecated
	DatetimeRe = regexp.MustCompile(`^\d{4}-\d{2}-\d{2} \d{2}:\d{2}:\d{2}$`)
	// Deprecated
	DatetimeRe2 = regexp.MustCompile(`^\d{4}/\d{2}/\d{2} \d{2}:\d{2}:\d{2}$`)
)

// newStrBuf
func newStrBuf(size ...int) *strings.Builder {
	obj := syncBufPool.Get().(*strings.Builder)
	if len(size) > 0 {
		obj.Grow(size[0])
	}
	return obj
}

// putStrBuf
func putStrBuf(buf *strings.Builder) {
	if buf.Len() > 0 {
		buf.Reset()
	}
	syncBufPool.Put(buf)
}

// SetCustomerValidFn 自定义验证函数
// 用于全局添加验证方法, 如果不想定义全局, 可根据验证对象分别调用 SetValidFn, 如: *VStruct.SetValidFn
func SetCustomerValidFn(validName string, fn CommonValidFn) {
	validName2FnMap[validName] = fn
}

// SetStructTypeCache 设置 structType 缓存类型
func SetStructTypeCache(cacheEr CacheEr) {
	once.Do(func() {
		cacheStructType = cacheEr
	})
}

// GetOnlyExplainErr 获取所有的说明错误(不包含错误的字段信息)
// 使用场景: 在自定义错误信息时, 返回给非开发人员看的结果
func GetOnlyExplainErr(errMsg string) string {
	if errMsg == "" {
		return ""
	}
	buf := newStrBuf(1 << 8)
	defer putStrBuf(buf)
	zhLen := len(ExplainZh)
	enLen := len(ExplainEn)
	endLen := len(ErrEndFlag)
	nullLen := 1 // err msg [说明: xxx] 里包含一个空需要处理
	wrote := false
	for {
		e := strings.Index(errMsg, ErrEndFlag) // 未发现的话, 为最后一句错误
		clause := errMsg                       // 逐句处理, 说明标记只在本句内查找
		if e != -1 {
			clause = errMsg[:e]
		}
		splitLen := zhLen
		s := strings.Index(clause, ExplainZh)
		if s == -1 { // 说明为英文
			s = strings.Index(clause, ExplainEn)
			splitLen = enLen
		}
		if s != -1 { // 没有说明的句子(如: 规则不存在)跳过
			start := s + splitLen + nullLen
			if start > len(clause) {
				start = len(clause)
			}
			if wrote {
				buf.WriteString(ErrEndFlag)
			}
			buf.WriteString(clause[start:])
			wrote = true
		}
		if e == -1 {
			break
		}
		errMsg = errMsg[e+endLen:]
	}
	return buf.String()
}

// GetTimeFmt 获取时间格式化
// splits 为分隔符
// splits[0] 为 [年月日] 的分割符, 默认为 "-"
// splits[1] 为 [年月日] 和 [时分秒] 的分割符, 默认为 " "
// splits[2] 为 [时分秒] 的分割符, 默认为 ":"
func GetTimeFmt(fmtType int8, splits ...string) string {
	defaultDateSplit := "-"
	defaultDateTimeSplit := " "
	defaultTimeSplit := ":"
	l := len(splits)
	switch l {
	case 1:
		defaultDateSplit = splits[0]
	case 2:
		defaultDateSplit = splits[0]
		defaultDateTimeSplit = splits[1]
	case 3:
		defaultDateSplit = splits[0]
		defaultDateTimeSplit = splits[1]
		defaultTimeSplit = splits[2]
	}

	joinFn := func(old, split, join string) string {
		if old == "" {
			return join
		}
		if join == "" {
			return old
		}
		return old + split + join
	}

	// 年月日
	prefix := ""
	if fmtType&YearFmt > 0 {
		prefix = joinFn(prefix, defaultDateSplit, "2006")
	}
	if fmtType&MonthFmt > 0 {
		prefix = joinFn(prefix, defaultDateSplit, "01")
	}
	if fmtType&DayFmt > 0 {
		prefix = joinFn(prefix, defaultDateSplit, "02")
	}

	// 时分秒
	suffix := ""
	if fmtType&HourFmt > 0 {
		suffix = joinFn(suffix, defaultTimeSplit, "15")
	}
	if fmtType&MinFmt > 0 {
		suffix = joinFn(suffix, defaultTimeSplit, "04")
	}
	if fmtType&SecFmt > 0 {
		suffix = joinFn(suffix, defaultTimeSplit, "05")
	}
	return joinFn(prefix, defaultDateTimeSplit, suffix)
}
