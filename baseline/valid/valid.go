package valid

// *******************************************************************************
// *                              验证 struct                                     *
// *******************************************************************************

// Struct 验证结构体
// 1. 支持单结构体验证
// 2. 支持切片/数组类型结构体验证
// 3. 支持map: key为普通类型, value为结构体 验证
func Struct(src interface{}, ruleObj ...RM) error {
	obj := NewVStruct()
	if len(ruleObj) > 0 {
		obj.SetRule(ruleObj[0])
	}
	return obj.Valid(src)
}

// StructForFn 验证结构体, 同时设置自定义参数
func StructForFn(src interface{}, ruleObj RM, targetTag ...string) error {
	return NewVStruct(targetTag...).SetRule(ruleObj).Valid(src)
}

// StructForFns 验证结构体, 可以设置自定义验证函数和规则
func StructForFns(src interface{}, ruleObj RM, fnMap Name2FnMap, targetTag ...string) error {
	vs := NewVStruct(targetTag...).SetRule(ruleObj)
	for validName, validFn := range fnMap {
		vs.SetValidFn(validName, validFn)
	}
	return vs.Valid(src)
}

// NestedStructForRule 结构嵌套多个设置多个结构体规则
// ruleMap  key: 结构体指针, value: RM
// 注: ruleMap 的 key 必须为指针, 不然会报错 "hash of unhashable type"
func NestedStructForRule(src interface{}, ruleMap map[interface{}]RM) error {
	vs := NewVStruct()
	for obj, rule := range ruleMap {
		vs.SetRule(rule, obj)
	}
	return vs.Valid(src)
}

// Deprecated: 使用 Struct 替换
// ValidateStruct 验证结构体
func ValidateStruct(src interface{}, targetTag ...string) error {
	return NewVStruct(targetTag...).Valid(src)
}

// Deprecated: 使用 StructForFn 替换
// ValidStructForRule 自定义验证规则并验证
// 注: 通过字段名来匹配规则, 如果嵌套中如果有相同的名的都会走这个规则, 因此建议这种方式推荐使用非嵌套结构体
func ValidStructForRule(ruleObj RM, src interface{}, targetTag ...string) error {
	return NewVStruct(targetTag...).SetRule(ruleObj).Valid(src)
}

// Deprecated: 使用 StructForFns 替换
// ValidStructForMyValidFn 自定义单个验证函数
func ValidStructForMyValidFn(src interface{}, validName string, validFn CommonValidFn, targetTag ...string) error {
	return NewVStruct(targetTag...).SetValidFn(validName, validFn).Valid(src)
}

// *******************************************************************************
// *                             验证 map                                        *
// *******************************************************************************

// Map 验证 map
// 支持:
//    key:   string
//    value: int,float,bool,string
func Map(src interface{}, ruleObj RM) error {
	return NewVMap().SetRule(ruleObj).Valid(src)
}

// MapFn 验证 map
func MapFn(src interface{}, ruleObj RM, fnMap Name2FnMap) error {
	obj := NewVMap().SetRule(ruleObj)
	for validName, validFn := range fnMap {
		obj.SetValidFn(validName, validFn)
	}
	return obj.Valid(src)
}

// *******************************************************************************
// *                             验证 单个变量                                     *
// *******************************************************************************

// Var 验证变量
// 支持 单个 [int,float,bool,string] 验证
// 支持 切片/数组 [int,float,bool,string] 验证时会对对象中的每个值进行验证
func Var(src interface{}, rules ...string) error {
	return NewVVar().SetRules(rules...).Valid(src)
}

// VarForFn 验证变量, 同时设置自定义函数
func VarForFn(src interface{}, validFn CommonValidFn) error {
	return NewVVar().SetValidFn(validVarFieldName, validFn).Valid(src)
}

// *******************************************************************************
// *                             验证 query url                                   *
// *******************************************************************************

// Url 验证变量
func Url(src interface{}, ruleObj RM) error {
	return NewVUrl().SetRule(ruleObj).Valid(src)
}

// UrlForFn 验证 url, 同时设置自定义函数
func UrlForFn(src interface{}, validName string, validFn CommonValidFn) error {
	return NewVUrl().SetValidFn(validName, validFn).Valid(src)
}
