package valid

import (
	"errors"
	"net/url"
	"reflect"
	"strings"
)

// VUrl 验证 url
type VUrl struct {
	ruleObj RM
	errBuf  *strings.Builder
	vc      *validCommon
}

// NewVUrl 验证 url
func NewVUrl() *VUrl {
	obj := new(VUrl)
	obj.errBuf = newStrBuf()
	obj.vc = new(validCommon)
	return obj
}

// SetRule 添加验证规则
func (v *VUrl) SetRule(ruleObj RM) *VUrl {
	v.ruleObj = ruleObj
	return v
}

// Valid 验证
func (v *VUrl) Valid(src interface{}) error {
	if src == nil {
		return errors.New("src is nil")
	}

	var srcStr string
	switch v := src.(type) {
	case string:
		srcStr = v
	case *string:
		if v == nil {
			return errors.New("src is nil")
		}
		srcStr = *v
	default:
		return errors.New("src must is string/*string")
	}
	return v.validate(srcStr).getError()
}

// SetValidFn 自定义设置验证函数
func (v *VUrl) SetValidFn(validName string, fn CommonValidFn) *VUrl {
	v.vc.setValidFn(validName, fn)
	return v
}

// getValidFn 获取验证函数
func (v *VUrl) getValidFn(validName string) (CommonValidFn, error) {
	return v.vc.getValidFn(validName)
}

// validate 验证执行体
func (v *VUrl) validate(value string) *VUrl {
	// 解码处理
	decUrl, err := url.QueryUnescape(value)
	if err != nil {
		v.errBuf.WriteString(GetJoinFieldErr("", "", "url unescape is failed, err: "+err.Error()))
		return v
	}
	urlQuery := ""
	queryIndex := strings.Index(decUrl, "?")
	if queryIndex != -1 {
		urlQuery = decUrl[queryIndex+1:]
	}
	if urlQuery == "" {
		return v
	}

	var key, val string
	for _, query := range strings.Split(urlQuery, "&") {
		key = ""
		val = ""
		key2val := strings.Split(query, "=")
		l := len(key2val)
		if l > 0 {
			key = key2val[0]
		}
		if l > 1 {
			val = key2val[1]
		}

		validNames := v.ruleObj.Get(key)
		if validNames == "" {
			continue
		}
		// 根据验证内容进行验证
		for _, validName := range ValidNamesSplit(validNames) {
			if validName == "" {
				continue
			}

			validKey, _, cusMsg := ParseValidNameKV(validName)
			fn, err := v.getValidFn(validKey)
			if err != nil {
				v.errBuf.WriteString(GetJoinFieldErr("", key, err))
				continue
			}

			// 开始验证
			if fn == nil {
				switch validKey {
				case Required:
					if val != "" { // 验证必填
						continue
					}
					if cusMsg != "" {
						v.errBuf.WriteString(GetJoinValidErrStr("", key, "", cusMsg))
						continue
					}
					v.errBuf.WriteString(GetJoinValidErrStr("", key, "", ExplainEn, "it is", Required))
				case Either, BothEq:
					v.vc.initValid2FieldsMap(&name2Value{
						validName:  validName,
						fieldName:  key,
						cusMsg:     cusMsg,
						reflectVal: reflect.ValueOf(val),
					})
				default:
					v.errBuf.WriteString(GetJoinFieldErr("", key, "valid \""+validName+"\" is no support"))
				}
				continue

			}
			// 拓展的验证方法
			if val == "" { // 空就直接跳过
				continue
			}
			fn(v.errBuf, validName, "", key, reflect.ValueOf(val))
		}
	}
	return v
}

// getError 获取 err
func (v *VUrl) getError() error {
	defer putStrBuf(v.errBuf)
	v.vc.valid(v.errBuf)
	if v.errBuf.Len() == 0 {
		return nil
	}
	// 这里需要去掉最后一个 ErrEndFlag
	return errors.New(strings.TrimSuffix(v.errBuf.String(), ErrEndFlag))
}
