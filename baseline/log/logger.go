package log

import (
	"fmt"
	"log"
	"os"
)

const (
	LevelDebug = 1 << iota
	LevelInfo
	LevelWarn
	LevelError
	LevelPanic
	LevelFatal
)

var (
	// level 的前缀字符串
	defaultLevelPrefixes = map[int]string{
		LevelDebug: "DEBU",
		LevelInfo:  "INFO",
		LevelWarn:  "WARN",
		LevelError: "ERRO",
		LevelPanic: "PANI",
		LevelFatal: "FATA",
	}

	// level 颜色, 颜色参数格式: 格式：\033[显示方式;前景色;背景色m
	levelColor = map[int]string{
		-1: "\033[0m", // 重置
		// LevelDebug: "DEBU",
		LevelInfo:  "\033[1;32m", // 绿色
		LevelWarn:  "\033[1;33m", // 黄色
		LevelError: "\033[1;31m", // 红色
		LevelPanic: "\033[1;35m", // 紫红色
		LevelFatal: "\033[1;35m", // 加粗紫红色
	}
)

var (
	Log *defaultLogger
)

func init() {
	Log = NewLogger()
}

type defaultLogger struct {
	log *log.Logger
}

func NewLogger() *defaultLogger {
	return &defaultLogger{
		log: log.New(os.Stderr, "", log.LstdFlags),
	}
}

func (d *defaultLogger) Info(v ...interface{}) {
	d.log.Println(append([]interface{}{d.getLevelPrefix(LevelInfo)}, v...)...)
}

func (d *defaultLogger) Infof(format string, v ...interface{}) {
	d.log.Printf(d.getLevelPrefix(LevelInfo)+" "+format, v...)
}

func (d *defaultLogger) Error(v ...interface{}) {
	d.log.Println(append([]interface{}{d.getLevelPrefix(LevelError)}, v...)...)
}

func (d *defaultLogger) Errorf(format string, v ...interface{}) {
	d.log.Printf(d.getLevelPrefix(LevelError)+" "+format, v...)
}

func (d *defaultLogger) Warning(v ...interface{}) {
	d.log.Println(append([]interface{}{d.getLevelPrefix(LevelWarn)}, v...)...)
}

func (d *defaultLogger) Warningf(format string, v ...interface{}) {
	d.log.Printf(d.getLevelPrefix(LevelWarn)+" "+format, v...)
}

func (d *defaultLogger) Fatal(v ...interface{}) {
	d.Error(v...)
	os.Exit(1)
}

func (d *defaultLogger) Fatalf(format string, v ...interface{}) {
	d.Errorf(format, v...)
	os.Exit(1)
}

func (d *defaultLogger) Panic(v ...interface{}) {
	d.Error(v...)
	panic(fmt.Sprint(v...))
}

func (d *defaultLogger) Panicf(format string, v ...interface{}) {
	d.Errorf(format, v...)
	panic(fmt.Sprintf(format, v...))
}

// getLevelPrefix
func (x *defaultLogger) getLevelPrefix(level int) string {
	str := levelColor[level] + defaultLevelPrefixes[level] + levelColor[-1] // 同时需要重置下
	return "[" + str + "]"
}

// ============================= 常用方法封装 ===============================

func Info(v ...interface{}) {
	Log.Info(v...)
}

func Infof(format string, v ...interface{}) {
	Log.Infof(format, v...)
}

func Error(v ...interface{}) {
	Log.Error(v...)
}

func Errorf(format string, v ...interface{}) {
	Log.Errorf(format, v...)
}

func Warning(v ...interface{}) {
	Log.Warning(v...)
}

func Warningf(format string, v ...interface{}) {
	Log.Warningf(format, v...)
}

func Fatal(v ...interface{}) {
	Log.Fatal(v...)
}

func Fatalf(format string, v ...interface{}) {
	Log.Fatalf(format, v...)
}

func Panic(v ...interface{}) {
	Log.Panic(v...)
}

func Panicf(format string, v ...interface{}) {
	Log.Panicf(format, v...)
}
